"""Fact model: loads the JSON written by engine/gimli-facts and offers CFG / def-use /
call-graph utilities.  Everything here is purely structural (no execution of gimli)."""
import json
import os
import re
from collections import defaultdict, deque

INT_TYPES = {
    'u8': (0, 2**8 - 1), 'u16': (0, 2**16 - 1), 'u32': (0, 2**32 - 1), 'u64': (0, 2**64 - 1),
    'u128': (0, 2**128 - 1), 'usize': (0, 2**64 - 1),
    'i8': (-2**7, 2**7 - 1), 'i16': (-2**15, 2**15 - 1), 'i32': (-2**31, 2**31 - 1),
    'i64': (-2**63, 2**63 - 1), 'i128': (-2**127, 2**127 - 1), 'isize': (-2**63, 2**63 - 1),
}


def pkey(place):
    """Hashable key of a place."""
    return json.dumps(place, separators=(',', ':'))


class Fn:
    __slots__ = ('raw', 'path', 'kind', 'file', 'line', 'end_line', 'vis', 'reachable_pub', 'name',
                 'parent', 'impl_self', 'impl_self_adt', 'impl_trait', 'trait_of', 'doc', 'unsafe_fn',
                 'argc', 'locals', 'blocks', 'facts', '_succ', '_pred', '_dom', '_pdom', '_defs',
                 '_reach', 'caps', '_uses', 'nf')

    def __init__(self, raw, facts):
        self.raw = raw
        self.facts = facts
        self.nf = False     # name-free rendering mode of fmt_* (keys must not depend on local names / temporary numbers)
        for k in ('path', 'kind', 'file', 'line', 'end_line', 'vis', 'reachable_pub', 'name', 'parent',
                  'impl_self', 'impl_self_adt', 'impl_trait', 'trait_of', 'doc', 'unsafe_fn', 'argc',
                  'locals', 'blocks', 'caps'):
            setattr(self, k, raw[k])
        self.file = self.file[self.file.index('/src/') + 1:] if '/src/' in self.file else self.file.replace('/repo/', '')
        self._succ = None
        self._pred = None
        self._dom = None
        self._pdom = None
        self._defs = None
        self._reach = None
        self._uses = None

    # ---- basic accessors -------------------------------------------------------------
    def loc(self, line=None):
        return '%s:%d' % (self.file, line if line else self.line)

    def ty(self, local):
        return self.facts.strs[self.locals[local][0]]

    def lname(self, local):
        return self.locals[local][1]

    def term(self, bb):
        return self.blocks[bb][1]

    def stmts(self, bb):
        return self.blocks[bb][0]

    @staticmethod
    def term_targets(t):
        k = t['k']
        if k == 'goto':
            return [t['t']]
        if k == 'switch':
            out = [x[1] for x in t['v']]
            out.append(t['o'])
            return out
        if k in ('call', 'drop', 'assert'):
            return [t['t']] if t.get('t') is not None else []
        return []

    @property
    def succ(self):
        if self._succ is None:
            self._succ = [self.term_targets(b[1]) for b in self.blocks]
        return self._succ

    @property
    def pred(self):
        if self._pred is None:
            p = [[] for _ in self.blocks]
            for i, ss in enumerate(self.succ):
                for s in ss:
                    if i not in p[s]:
                        p[s].append(i)
            self._pred = p
        return self._pred

    @property
    def reach(self):
        """Blocks reachable from entry (unwind edges are not part of the facts)."""
        if self._reach is None:
            seen = {0}
            st = [0]
            while st:
                b = st.pop()
                for s in self.succ[b]:
                    if s not in seen:
                        seen.add(s)
                        st.append(s)
            self._reach = seen
        return self._reach

    def reachable_from(self, start, removed=()):
        removed = set(removed)
        if start in removed:
            return set()
        seen = {start}
        st = [start]
        while st:
            b = st.pop()
            for s in self.succ[b]:
                if s not in seen and s not in removed:
                    seen.add(s)
                    st.append(s)
        return seen

    @property
    def dom(self):
        """dom[b] = set of blocks dominating b (including b), over reachable blocks."""
        if self._dom is None:
            self._dom = _dominators(len(self.blocks), self.succ, self.pred, 0, self.reach)
        return self._dom

    def dominates(self, a, b):
        return a in self.dom.get(b, ())

    def edge_dominates(self, src, dst, b):
        """True if every path from entry to b uses the edge src->dst."""
        if b not in self.reach:
            return True
        # remove edge and test reachability
        seen = {0}
        st = [0]
        while st:
            x = st.pop()
            for s in self.succ[x]:
                if x == src and s == dst:
                    continue
                if s not in seen:
                    seen.add(s)
                    st.append(s)
        return b not in seen

    # ---- def/use ---------------------------------------------------------------------
    @property
    def defs(self):
        """local -> list of (bb, idx|'term', rvalue-or-call) for whole-local assignments."""
        if self._defs is None:
            d = defaultdict(list)
            for bi, (stmts, term) in enumerate(self.blocks):
                for si, st in enumerate(stmts):
                    if st[0] == 'a':
                        pl = st[1]
                        d[pl[0]].append((bi, si, st[2], len(pl) == 1))
                if term['k'] == 'call':
                    pl = term['d']
                    d[pl[0]].append((bi, 'term', term, len(pl) == 1))
            self._defs = d
        return self._defs

    def single_def(self, local):
        ds = self.defs.get(local, [])
        if len(ds) == 1 and ds[0][3]:
            return ds[0]
        return None

    def calls(self):
        for bi, (stmts, term) in enumerate(self.blocks):
            if term['k'] in ('call', 'tailcall'):
                yield bi, term

    # ---- readable expressions --------------------------------------------------------
    def _short_type(self, local):
        t = self.ty(local) if local < len(self.locals) else '?'
        t = re.sub(r'\{(closure|coroutine)@[^{}]*\}', r'{\1}', t)
        return t.replace('&mut ', '&').split('<', 1)[0].split('::')[-1]

    def fmt_place(self, place, depth=6):
        base = place[0]
        nm = self.lname(base)
        if self.nf:
            if 1 <= base <= self.argc:
                s = 'self' if (base == 1 and self.impl_self_adt and nm in (None, 'self')) else 'arg%d' % base
            else:
                sd = self.single_def(base) if depth > 0 else None
                if sd is not None:
                    s = self.fmt_def(sd, depth - 1)
                else:
                    s = 'v:' + self._short_type(base)
        elif nm is None:
            if base != 0 and base <= self.argc:
                s = 'arg%d' % base
            else:
                sd = self.single_def(base) if depth > 0 else None
                if sd is not None:
                    s = self.fmt_def(sd, depth - 1)
                else:
                    s = '_%d' % base
        else:
            s = nm
        for pr in place[1:]:
            if pr == '*':
                s = '*' + s if re.match(r'^[\w.]+$', s) else '*(' + s + ')'
            elif pr[0] == 'f':
                s = '%s.%s' % (s, pr[2] if pr[2] is not None else pr[1])
            elif pr[0] == 'd':
                s = '%s@%s' % (s, pr[1])
            elif pr[0] == 'i':
                s = '%s[%s]' % (s, self.fmt_place([pr[1]], depth - 1))
            elif pr[0] == 'ci':
                s = '%s[%s%d]' % (s, '-' if pr[3] else '', pr[1])
            elif pr[0] == 'sub':
                s = '%s[%d..%s%d]' % (s, pr[1], '-' if pr[3] else '', pr[2])
        # `*self.x` reads better as self.x
        return s.replace('*self.', 'self.').replace('(*self)', 'self')

    def fmt_op(self, op, depth=6):
        if op[0] in ('c', 'm'):
            return self.fmt_place(op[1], depth)
        if op[0] == 'k':
            c = op[2]
            if 'fn' in c:
                return 'fn:' + c['fn']
            if c.get('named') and not (str(c['named']).startswith('promoted') and c.get('v') is not None):
                return c['named'].split('::')[-1]
            v = c.get('v')
            return 'const' if v is None else str(v)
        return '?'

    def fmt_def(self, d, depth):
        bi, si, rv, _ = d
        if si == 'term':
            t = rv
            f = t['f']
            name = f.get('name') or f.get('path', 'fnptr')
            if depth <= 0:
                return name + '(..)'
            return '%s(%s)' % (name, ', '.join(self.fmt_op(a, depth - 1) for a in t['a']))
        return self.fmt_rv(rv, depth)

    def fmt_rv(self, rv, depth=6):
        k = rv[0]
        if k == 'use':
            return self.fmt_op(rv[1], depth)
        if k in ('ref', 'ptr'):
            return '&' + self.fmt_place(rv[1], depth)
        if k == 'cfd':
            return self.fmt_place(rv[1], depth)
        if k == 'cast':
            return '(%s as %s)' % (self.fmt_op(rv[2], depth), self.facts.strs[rv[4]])
        if k == 'bin':
            return '(%s %s %s)' % (self.fmt_op(rv[2], depth), rv[1], self.fmt_op(rv[3], depth))
        if k == 'un':
            return '%s(%s)' % (rv[1], self.fmt_op(rv[2], depth))
        if k == 'discr':
            return 'discr(%s)' % self.fmt_place(rv[1], depth)
        if k == 'agg':
            kd = rv[1]
            nm = kd[0]
            if nm == 'adt':
                nm = self.facts.strs[kd[1]].split('::')[-1] + '::' + kd[2]
            return '%s{%s}' % (nm, ', '.join(self.fmt_op(o, depth - 1) for o in rv[2]))
        if k == 'rep':
            return '[%s; %s]' % (self.fmt_op(rv[1], depth), rv[2])
        return k


def _dominators(n, succ, pred, entry, reach):
    # iterative set-based dominators over reachable blocks (bodies are small)
    order = []
    seen = set()
    st = [(entry, iter(succ[entry]))]
    seen.add(entry)
    while st:
        node, it = st[-1]
        adv = False
        for s in it:
            if s not in seen and s in reach:
                seen.add(s)
                st.append((s, iter(succ[s])))
                adv = True
                break
        if not adv:
            order.append(node)
            st.pop()
    rpo = list(reversed(order))
    idx = {b: i for i, b in enumerate(rpo)}
    idom = {entry: entry}
    changed = True
    while changed:
        changed = False
        for b in rpo:
            if b == entry:
                continue
            new = None
            for p in pred[b]:
                if p in idom:
                    if new is None:
                        new = p
                    else:
                        a, c = p, new
                        while a != c:
                            while idx[a] > idx[c]:
                                a = idom[a]
                            while idx[c] > idx[a]:
                                c = idom[c]
                        new = a
            if new is not None and idom.get(b) != new:
                idom[b] = new
                changed = True
    dom = {}
    for b in rpo:
        s = {b}
        x = b
        while x != entry:
            x = idom[x]
            s.add(x)
        dom[b] = s
    return dom


FIXTURE_NAMES = {'Reader': 'read::reader::Reader', 'DebugStrOffset': 'common::DebugStrOffset', 'Error': 'read::Error'}


FUNCTIONS_TABLE = os.path.join(os.path.dirname(os.path.dirname(os.path.abspath(__file__))), 'tables', 'functions.json')


def fn_signature(fr, strs):
    """parameter and return types of a raw function record"""
    return [re.sub(r'\{(closure|coroutine)@[^{}]*\}', r'{\1}', strs[fr['locals'][i][0]])
            for i in range(0, fr['argc'] + 1) if i < len(fr['locals'])]


def _undo_private_renames(raw):
    """Rename normalisation.  tables/functions.json lists every function of the pinned tree with its signature.  A function
    that is missing now, when exactly one function that did not exist then has the same scope (module / impl), the same
    signature and is not reachable from the public API, is that function under a new name: the facts are rewritten to the
    reviewed name (definition, its closures, every call of it), so that table rows, anchors and site keys keep matching.
    Returns {new path: old path}.  Content changes are not hidden: only the name is mapped."""
    if not os.path.exists(FUNCTIONS_TABLE) or os.environ.get('VERIF_NO_RENAMES'):
        return {}
    frozen = json.load(open(FUNCTIONS_TABLE))['functions']
    strs = raw['strs']
    cur = {fr['path']: fr for fr in raw['fns'] if fr['kind'] != 'Closure'}
    missing = [p_ for p_ in frozen if p_ not in cur]
    added = [p_ for p_ in cur if p_ not in frozen]
    if not missing or not added:
        return {}
    scope = lambda p_: p_.rsplit('::', 1)[0]
    amap = {}
    for m in missing:
        cands = [a for a in added if scope(a) == scope(m) and fn_signature(cur[a], strs) == frozen[m]['sig']
                 and not cur[a].get('reachable_pub') and cur[a]['kind'] == frozen[m].get('kind', cur[a]['kind'])]
        if len(cands) == 1:
            amap.setdefault(cands[0], []).append(m)
    amap = {a: ms[0] for a, ms in amap.items() if len(ms) == 1}
    if not amap:
        return {}

    def fix_path(p_):
        if not isinstance(p_, str):
            return p_
        for a, m in amap.items():
            if p_ == a:
                return m
            if p_.startswith(a + '::'):
                return m + p_[len(a):]
        return p_
    short = {a.rsplit('::', 1)[1]: m.rsplit('::', 1)[1] for a, m in amap.items()}
    for fr in raw['fns']:
        np_ = fix_path(fr['path'])
        if np_ != fr['path']:
            if fr['path'] in amap:
                fr['name'] = np_.rsplit('::', 1)[1]
            fr['path'] = np_
        if fr.get('parent'):
            fr['parent'] = fix_path(fr['parent'])
        for blk in fr['blocks']:
            stmts, t = blk
            if t.get('k') in ('call', 'tailcall') and isinstance(t.get('f'), dict) and 'path' in t['f']:
                f = t['f']
                if f['path'] in amap or (f.get('res') in amap):
                    f['name'] = short.get(f.get('name'), f.get('name'))
                f['path'] = fix_path(f['path'])
                if f.get('res'):
                    f['res'] = fix_path(f['res'])
            for st in stmts:
                if st[0] == 'a' and st[2][0] == 'agg' and st[2][1][0] == 'closure':
                    st[2][1][1] = fix_path(st[2][1][1])
    for im in raw.get('impls', []):
        for it in im.get('items', []):
            if 'path' in it:
                it['path'] = fix_path(it['path'])
    return amap


class Facts:
    def __init__(self, path, strip_prefix=None, renames=True):
        with open(path) as f:
            text = f.read()
        if strip_prefix:
            # the fixture crate sees gimli's items through the crate-root re-exports (`gimli::Reader`);
            # normalise the handful of names the fixture uses to gimli's own definition paths
            text = text.replace(strip_prefix, '')
            for short, full in FIXTURE_NAMES.items():
                text = text.replace('"%s::' % short, '"%s::' % full).replace('"%s"' % short, '"%s"' % full)
                text = text.replace('<%s as ' % short, '<%s as ' % full).replace(' as %s>' % short, ' as %s>' % full)
        raw = json.loads(text)
        self.renamed = {}
        if not strip_prefix and renames:
            self.renamed = _undo_private_renames(raw)
        self.raw = raw
        self.crate = raw['crate']
        self.features = raw['features']
        self.strs = raw['strs']
        self.fns = {}
        self.dups = []
        for fr in raw['fns']:
            fn = Fn(fr, self)
            if fn.path in self.fns:
                self.dups.append(fn.path)
                # disambiguate deterministically
                i = 2
                while '%s#%d' % (fn.path, i) in self.fns:
                    i += 1
                fn.path = '%s#%d' % (fn.path, i)
            self.fns[fn.path] = fn
        self.adts = {a['path']: a for a in raw['adts']}
        self.impls = raw['impls']
        self.traits = {t['path']: t for t in raw['traits']}
        self.consts = {c['path']: c for c in raw['consts']}
        self.statics = {s['path']: s for s in raw['statics']}
        # trait method -> list of impl method paths (in-crate)
        self.trait_impls = defaultdict(list)
        for im in self.impls:
            if im['trait']:
                for it in im['items']:
                    if it['trait_item']:
                        self.trait_impls[it['trait_item']].append(it['path'])
        self.closures_of = defaultdict(list)
        for fn in self.fns.values():
            if fn.kind == 'Closure' and fn.parent:
                self.closures_of[fn.parent].append(fn.path)
        self._cg = None
        self._const_names = None

    # ---- lookup helpers -------------------------------------------------------------
    def fn(self, path):
        f = self.fns.get(path)
        if f is None:
            raise MissingAnchor('function %s not found in %s facts' % (path, self.crate))
        return f

    def find_fns(self, regex):
        r = re.compile(regex)
        return [f for p, f in self.fns.items() if r.search(p)]

    def adt(self, path):
        a = self.adts.get(path)
        if a is None:
            raise MissingAnchor('type %s not found' % path)
        return a

    def const_names(self, ty):
        """value -> name for constants of the given (newtype) type, e.g. constants::DwForm."""
        if self._const_names is None:
            m = defaultdict(dict)
            for c in self.consts.values():
                if c['v'] is not None:
                    m[c['ty']].setdefault(c['v'], c['path'].split('::')[-1])
            self._const_names = m
        return self._const_names.get(ty, {})

    def const_value(self, name_suffix):
        for p, c in self.consts.items():
            if p == name_suffix or p.endswith('::' + name_suffix):
                return c['v']
        raise MissingAnchor('constant %s not found' % name_suffix)

    # ---- call graph -----------------------------------------------------------------
    def callee_targets(self, f):
        """In-crate function paths a call descriptor may dispatch to."""
        if 'ptr' in f:
            return []
        out = []
        res = f.get('res')
        path = f['path']
        if res and res in self.fns:
            out.append(res)
            return out
        if path in self.fns and not f.get('trait'):
            out.append(path)
            return out
        if f.get('trait'):
            if res:
                return out  # resolved to something outside the crate
            # unresolved trait method: default body + every in-crate impl
            if path in self.fns:
                out.append(path)
            for p in self.trait_impls.get(path, ()):
                if p in self.fns:
                    out.append(p)
        return out

    @property
    def callgraph(self):
        if self._cg is None:
            cg = {}
            self.cg_strict = {}
            for p, fn in self.fns.items():
                outs = set()
                strict = set()
                self.cg_strict[p] = strict
                for bi, (stmts, term) in enumerate(fn.blocks):
                    if term['k'] in ('call', 'tailcall'):
                        parametric = bool(term['f'].get('self_param')) and not term['f'].get('res')
                        for t in self.callee_targets(term['f']):
                            outs.add(t)
                            if not parametric:
                                strict.add(t)
                        for a in term['a']:
                            if a[0] == 'k' and 'fn' in a[2]:
                                fp = a[2]['fn']
                                for t in self.callee_targets({'path': fp, 'trait': self._trait_of_path(fp), 'res': None}):
                                    outs.add(t)
                    for st in stmts:
                        if st[0] == 'a':
                            rv = st[2]
                            if rv[0] == 'agg' and rv[1][0] == 'closure':
                                if rv[1][1] in self.fns:
                                    outs.add(rv[1][1])
                            # fn items used as values
                            for o in _rv_operands(rv):
                                if o[0] == 'k' and 'fn' in o[2]:
                                    fp = o[2]['fn']
                                    for t in self.callee_targets({'path': fp, 'trait': self._trait_of_path(fp), 'res': None}):
                                        outs.add(t)
                cg[p] = outs
                # closures / fn items are strict edges too
                for t in outs:
                    if self.fns[t].kind == 'Closure' and self.fns[t].parent == p:
                        strict.add(t)
            self._cg = cg
        return self._cg

    def _trait_of_path(self, fp):
        # a trait method path looks like "<trait path>::<name>" with the trait in self.traits,
        # or any foreign trait item; we only need to know for local traits.
        head = fp.rsplit('::', 1)[0]
        return head if head in self.traits else None

    def reachable(self, roots):
        seen = set()
        dq = deque()
        for r in roots:
            if r in self.fns and r not in seen:
                seen.add(r)
                dq.append(r)
        cg = self.callgraph
        parent = {}
        while dq:
            x = dq.popleft()
            for y in cg.get(x, ()):
                if y not in seen:
                    seen.add(y)
                    parent[y] = x
                    dq.append(y)
        return seen, parent


def _rv_operands(rv):
    k = rv[0]
    if k == 'use':
        return [rv[1]]
    if k == 'cast':
        return [rv[2]]
    if k == 'bin':
        return [rv[2], rv[3]]
    if k == 'un':
        return [rv[2]]
    if k == 'agg':
        return rv[2]
    if k == 'rep':
        return [rv[1]]
    return []


rv_operands = _rv_operands


class MissingAnchor(Exception):
    pass
