"""F-eq (C11, C14, C16): de-duplication is by construction only if equality and hashing of the key types
see every field.  The writer stores abbreviations, strings, range/location lists, CIEs, files and
directories in IndexSet / IndexMap / HashMap and hands out the index of `insert_full`; two keys that
compare equal share one emitted copy.  Rule: for every in-crate ADT that occurs inside the key type of
such a container field of a write::* type, the PartialEq::eq and Hash::hash impls are either
compiler-derived or read every field of the type."""
import re

from . import arms as A

CONTAINERS = ('indexmap::IndexSet<', 'indexmap::IndexMap<', 'hashbrown::HashMap<', 'std::collections::HashMap<',
              'indexmap::set::IndexSet<', 'indexmap::map::IndexMap<', 'hashbrown::map::HashMap<')


def _key_type(ty):
    for c in CONTAINERS:
        i = ty.find(c)
        if i >= 0:
            rest = ty[i + len(c):]
            depth = 0
            out = ''
            for ch in rest:
                if ch in '<(':
                    depth += 1
                if ch == ')':
                    depth -= 1
                if ch == '>':
                    if depth == 0:
                        break
                    depth -= 1
                if ch == ',' and depth == 0:
                    break
                out += ch
            return out.strip()
    return None


def key_adts(g):
    """in-crate ADTs reachable from the key types of set/map fields of write::* types"""
    roots = {}
    for path, a in g.adts.items():
        if not path.startswith('write::'):
            continue
        for v in a['variants']:
            for f in v['fields']:
                k = _key_type(f['ty'])
                if k:
                    roots.setdefault(k, []).append('%s.%s' % (path, f['name']))
    out = {}
    seen = set()

    def visit(tystr, why):
        for other in g.adts:
            if other in seen:
                continue
            if re.search(r'(^|[^\w:])' + re.escape(other) + r'($|[^\w:])', tystr):
                seen.add(other)
                out[other] = why
                for v in g.adts[other]['variants']:
                    for f in v['fields']:
                        visit(f['ty'], why)
    for k, why in roots.items():
        visit(k, why[0])
    return out, roots


def run_F_eq(rep, g, rule='F-eq'):
    rep.rule(rule, 'de-duplication keys: for every in-crate type inside the key of an IndexSet/IndexMap/HashMap field of a write::* type, '
             'PartialEq::eq and Hash::hash are compiler-derived or read every field (so two values that differ anywhere never share one emitted copy)')
    adts, roots = key_adts(g)
    rep.floor(rule, 'container key types found', len(roots), 5)
    rep.floor(rule, 'in-crate types inside keys', len(adts), 8)
    summ = A.ArmSummarizer(g)
    for path in sorted(adts):
        a = g.adts[path]
        for trait, meth in (('core::cmp::PartialEq', 'eq'), ('core::hash::Hash', 'hash')):
            fns = [f for f in g.fns.values() if f.impl_self_adt == path and f.impl_trait == trait and f.name == meth]
            key = '%s|%s' % (path, trait.split('::')[-1])
            if not fns:
                rep.bad(rule, key, '%s is part of a de-duplication key (%s) but has no %s impl in the crate' % (path, adts[path], trait), '%s:%d' % (a['file'].replace('/repo/', ''), a['line']))
                continue
            fn = fns[0]
            derived = abs(fn.line - a['line']) <= 8 and fn.end_line <= a['line'] + 1
            if derived:
                rep.ok(rule, key, 'derived (generated at the type definition)', fn.loc(), why='compiler-derived impl compares/hashes every field')
                continue
            if a['kind'] != 'struct':
                rep.bad(rule, key, 'hand-written %s for enum %s: cannot confirm that every variant payload takes part' % (trait, path), fn.loc())
                continue
            fields = [f['name'] for f in a['variants'][0]['fields']]
            reads = summ.field_reads(fn, fn.reach, 1)
            missing = [f for f in fields if not any(r == f or r.startswith(f + '.') for r in reads)]
            rep.check(rule, key, not missing, 'hand-written %s::%s of %s ignores field(s) %s (reads %s)' % (trait.split('::')[-1], meth, path, missing, sorted(reads)),
                      fn.loc(), why='hand-written impl reads every field')
