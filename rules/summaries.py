"""Interprocedural summaries for ranges.py: return ranges of in-crate functions, payload ranges
of Result/Option returns, ranges of private struct fields (join over every store)."""
from .ranges import Eval, type_range, join, meet


class Summaries:
    def __init__(self, g):
        self.g = g
        self._ret = {}
        self._pay = {}
        self._field = {}
        self._stores = None
        self._evals = {}
        self.inprog = set()

    def ev(self, fn):
        e = self._evals.get(fn.path)
        if e is None:
            e = Eval(fn, self)
            self._evals[fn.path] = e
        return e

    def param_range(self, fn, idx):
        return None

    def ret_range(self, path):
        if path in self._ret:
            return self._ret[path]
        fn = self.g.fns.get(path)
        if fn is None:
            return None
        tr = type_range(fn.ty(0))
        if tr is None:
            self._ret[path] = None
            return None
        k = ('r', path)
        if k in self.inprog:
            return tr
        self.inprog.add(k)
        try:
            r = self.ev(fn).place([0], 10)
        except RecursionError:
            r = tr
        finally:
            self.inprog.discard(k)
        r = meet(tr, r) if r is not None else tr
        self._ret[path] = r
        return r

    def ret_payload(self, path, variant):
        key = (path, variant)
        if key in self._pay:
            return self._pay[key]
        fn = self.g.fns.get(path)
        if fn is None:
            return None
        k = ('p',) + key
        if k in self.inprog:
            return None
        self.inprog.add(k)
        r = None
        try:
            e = self.ev(fn)
            ds = fn.defs.get(0, [])
            first = True
            for d in ds:
                if not d[3]:
                    r = None
                    break
                # skip defs that construct the other variant (Err / None)
                if d[1] != 'term' and d[2][0] == 'agg' and d[2][1][0] == 'adt' and d[2][1][2] != variant:
                    continue
                if d[1] == 'term' and d[2]['f'].get('name') == 'from_residual':
                    continue
                v = e._payload(d, variant, 8)
                if v is None:
                    r = None
                    break
                r = v if first else join(r, v)
                first = False
        except RecursionError:
            r = None
        finally:
            self.inprog.discard(k)
        self._pay[key] = r
        return r

    # ---- private-field ranges ---------------------------------------------------------
    def _collect_stores(self):
        """(adt path, field name) -> list of (fn, bb, operand | None)   None = unknown store"""
        g = self.g
        S = g.strs
        stores = {}

        def add(adt, field, fn, bb, op):
            stores.setdefault((adt, field), []).append((fn, bb, op))
        for fn in g.fns.values():
            for bi, (stmts, term) in enumerate(fn.blocks):
                for st in stmts:
                    if st[0] != 'a':
                        continue
                    pl, rv = st[1], st[2]
                    if rv[0] == 'agg' and rv[1][0] == 'adt':
                        adt = S[rv[1][1]]
                        if adt in g.adts and g.adts[adt]['kind'] == 'struct':
                            for i, nm in enumerate(rv[1][4]):
                                if i < len(rv[2]):
                                    add(adt, nm, fn, bi, rv[2][i])
                    last = pl[-1] if len(pl) > 1 else None
                    if isinstance(last, list) and last[0] == 'f' and last[3] is not None:
                        op = rv[1] if rv[0] == 'use' else None
                        if rv[0] in ('bin', 'cast', 'un'):
                            op = ('rv', rv)
                        add(S[last[3]], last[2], fn, bi, op)
                    # &mut borrow of a field: unknown store
                    if rv[0] in ('ref', 'ptr') and (rv[0] == 'ptr' or rv[2] == 'mut'):
                        for j, pr in enumerate(rv[1][1:], 1):
                            if isinstance(pr, list) and pr[0] == 'f' and pr[3] is not None and j == len(rv[1]) - 1:
                                add(S[pr[3]], pr[2], fn, bi, None)
                if term['k'] == 'call':
                    pl = term['d']
                    last = pl[-1] if len(pl) > 1 else None
                    if isinstance(last, list) and last[0] == 'f' and last[3] is not None:
                        add(S[last[3]], last[2], fn, bi, ('call', term))
        self._stores = stores

    def field_range(self, adt, field):
        key = (adt, field)
        if key in self._field:
            return self._field[key]
        a = self.g.adts.get(adt)
        if a is None or a['kind'] != 'struct':
            self._field[key] = None
            return None
        fdef = [f for f in a['variants'][0]['fields'] if f['name'] == field]
        if not fdef or fdef[0]['vis'] == 'pub':
            self._field[key] = None
            return None
        tr = type_range(fdef[0]['ty'])
        if tr is None:
            self._field[key] = None
            return None
        if self._stores is None:
            self._collect_stores()
        k = ('f',) + key
        if k in self.inprog:
            return tr
        self.inprog.add(k)
        r = None
        first = True
        try:
            for (fn, bb, op) in self._stores.get(key, []):
                if fn.impl_trait == 'core::clone::Clone' and fn.impl_self_adt == adt:
                    continue    # a clone copies the field unchanged
                if op is None:
                    r = tr
                    break
                e = self.ev(fn)
                if isinstance(op, tuple) and op[0] == 'rv':
                    v = e.rv(op[1], 10, bb)
                elif isinstance(op, tuple) and op[0] == 'call':
                    v = e._call(op[1], 10, bb)
                else:
                    v = e.val(op, bb)
                if v is None:
                    r = tr
                    break
                r = v if first else join(r, v)
                first = False
        except RecursionError:
            r = tr
        finally:
            self.inprog.discard(k)
        if r is None:
            r = tr
        r = meet(tr, r)
        self._field[key] = r
        return r
