"""D2 (C02): discipline of the two pieces of cursor state the DIE traversal derives everything from:
EntriesRaw.depth and EntriesRaw.end_offset / input."""
from . import structs as ST
from .ranges import Eval

RAW = 'read::unit::EntriesRaw'


def run_D2(rep, g):
    rep.rule('D2-depth', 'every store to EntriesRaw.depth is one of: 0 in new / EntriesTree::root; depth-1 on the `code == 0` edge and '
             'depth+1 on the has_children edge of read_abbreviation; the `depth` parameter in seek_forward — and every caller of '
             'seek_forward passes the depth field of the entry it just read')
    rep.rule('D2-offset', 'EntriesRaw.end_offset is stored only by the constructor (offset + input.len()); EntriesRaw.input is only '
             'replaced by a skipped clone of itself (seek_forward), re-seated from the tree root, or advanced by reads')
    n = 0
    for (fn, bb, kind, st) in ST.field_stores(g, RAW, 'depth'):
        if fn.impl_trait == 'core::clone::Clone':
            continue
        n += 1
        key = 'depth-store|%s|%s' % (fn.path, kind)
        name = fn.name
        ev = Eval(fn)
        if kind == 'aggregate':
            # constructor: the depth operand must be the constant 0
            idx = st[2][1][4].index('depth')
            op = st[2][2][idx]
            v = ev.val(op, bb)
            rep.check('D2-depth', key, v == (0, 0), 'constructor stores depth = %s' % (v,), fn.loc(st[3]), why='initial depth 0')
        elif name == 'read_abbreviation' and kind == 'assign':
            rv = st[2]
            txt = fn.fmt_rv(rv, 4)
            facts = [(o, ev.canon(a), ev.canon(b)) for (o, a, b, gb) in ev.cond_facts(bb)]
            if 'Sub' in txt or 'SubWithOverflow' in txt:
                ok = any(o == 'Eq' and 'code' in a and b == 'const:0' for (o, a, b) in facts)
                rep.check('D2-depth', key + '|dec', ok, 'depth - 1 must be on the code == 0 edge (facts %s)' % facts, fn.loc(st[3]),
                          why='decrement only for the null entry')
            elif 'Add' in txt:
                ok = any('has_children' in a or 'has_children' in b for (o, a, b) in facts) or _dominated_by_call_true(fn, bb, 'has_children')
                rep.check('D2-depth', key + '|inc', ok, 'depth + 1 must be on the has_children() edge (facts %s)' % facts, fn.loc(st[3]),
                          why='increment only when the abbreviation has children')
            else:
                rep.bad('D2-depth', key, 'unexpected store `%s` to depth in read_abbreviation' % txt, fn.loc(st[3]))
        elif name == 'seek_forward' and kind == 'assign':
            txt = ev.canon(st[2][1]) if st[2][0] == 'use' else fn.fmt_rv(st[2], 3)
            rep.check('D2-depth', key, txt == 'depth', 'seek_forward stores `%s` into depth' % txt, fn.loc(st[3]), why='stores its depth parameter')
        elif name == 'root' and fn.impl_self_adt == 'read::unit::EntriesTree':
            v = ev.val(st[2][1], bb) if st[2][0] == 'use' else None
            rep.check('D2-depth', key, v == (0, 0), 'EntriesTree::root stores depth = %s' % (v,), fn.loc(st[3]), why='re-rooting resets depth to 0')
        else:
            rep.bad('D2-depth', key, 'EntriesRaw.depth is stored in %s, which is not one of the audited places' % fn.path, fn.loc())
    rep.floor('D2-depth', 'stores to EntriesRaw.depth', n, 5)
    # callers of seek_forward
    m = 0
    for p, fn in sorted(g.fns.items()):
        for bi, t in ST.calls_named(fn, 'seek_forward'):
            m += 1
            ev = Eval(fn)
            arg = ev.canon(t['a'][2]) if len(t['a']) > 2 else '?'
            ok = arg.endswith('.depth') and ('entry' in arg or 'current' in arg)
            rep.check('D2-depth', 'seek_forward-caller|%s' % p, ok, 'passes `%s` as the depth of the sibling it jumps to' % arg, fn.loc(t['line']),
                      why='sibling has the depth of the entry whose DW_AT_sibling was followed')
    rep.floor('D2-depth', 'callers of seek_forward', m, 2)
    # end_offset
    k = 0
    for (fn, bb, kind, st) in ST.field_stores(g, RAW, 'end_offset'):
        if fn.impl_trait == 'core::clone::Clone':
            continue
        k += 1
        rep.check('D2-offset', 'end_offset-store|%s|%s' % (fn.path, kind), fn.name == 'new' and kind == 'aggregate',
                  'end_offset stored in %s (%s)' % (fn.path, kind), fn.loc(), why='only the constructor sets end_offset')
    rep.floor('D2-offset', 'stores to end_offset', k, 1)
    allowed = {'new', 'seek_forward', 'root'}
    for (fn, bb, kind, st) in ST.field_stores(g, RAW, 'input'):
        if fn.impl_trait == 'core::clone::Clone':
            continue
        if kind == 'mut-borrow':
            continue        # &mut self.input handed to the reader primitives: consumption from the front
        ok = fn.name in allowed
        rep.check('D2-offset', 'input-store|%s|%s' % (fn.path, kind), ok, 'EntriesRaw.input replaced in %s' % fn.path, fn.loc(),
                  why='constructor / skipped clone / re-seat from root')
    # the raw reader is never truncated or split (premise of next_offset = end_offset - input.len())
    for p, fn in sorted(g.fns.items()):
        if fn.impl_self_adt not in (RAW, 'read::unit::EntriesCursor', 'read::unit::EntriesTree'):
            continue
        for bi, t in fn.calls():
            if 'ptr' in t['f'] or t['f'].get('trait') != 'read::reader::Reader':
                continue
            if t['f']['name'] in ('truncate', 'split'):
                recv = fn.fmt_op(t['a'][0], 4)
                if 'input' in recv and 'clone' not in recv:
                    rep.bad('D2-offset', 'truncate|%s' % p, '%s shortens the entry reader from the back (`%s.%s`)' % (p, recv, t['f']['name']), fn.loc(t['line']))


def _dominated_by_call_true(fn, b, callee):
    for d in fn.dom.get(b, ()):
        t = fn.term(d)
        if t['k'] != 'switch':
            continue
        dd = t['d']
        if dd[0] in ('c', 'm') and len(dd[1]) == 1:
            sd = fn.single_def(dd[1][0])
            if sd and sd[1] == 'term' and sd[2]['f'].get('name') == callee:
                for v, tgt in t['v'] + [[None, t['o']]]:
                    if ST.dominated_by_edge(fn, d, tgt, b):
                        truth = (v != 0) if v is not None else ([x for x, _ in t['v']] == [0])
                        if truth:
                            return True
    return False
