"""Check framework: fact extraction, obligations, tables, evidence."""
import json
import os
import shutil
import subprocess
import sys
import tempfile
import time

from .facts import Facts, MissingAnchor

VERIF = os.path.dirname(os.path.dirname(os.path.abspath(__file__)))
REPO = os.environ.get('VERIF_REPO', '/repo')
DRIVER = os.path.join(VERIF, 'engine', 'target', 'release', 'gimli-facts')

FEATURE_SETS = {
    # name -> cargo args for `cargo check -p gimli --lib` run in /repo
    'read': ['--no-default-features', '--features', 'read'],
    'read-core': ['--no-default-features', '--features', 'read-core'],
    'write': ['--no-default-features', '--features', 'write'],
}


class CannotDecide(Exception):
    pass


def nightly_sysroot():
    return subprocess.check_output(['rustc', '+nightly', '--print', 'sysroot'], text=True).strip()


def build_driver():
    if os.path.exists(DRIVER):
        src = os.path.join(VERIF, 'engine', 'src', 'main.rs')
        if os.path.getmtime(src) <= os.path.getmtime(DRIVER):
            return
    env = dict(os.environ, CARGO_NET_OFFLINE='true')
    r = subprocess.run(['cargo', '+nightly', 'build', '--release', '--offline'],
                       cwd=os.path.join(VERIF, 'engine'), env=env, stdout=subprocess.PIPE,
                       stderr=subprocess.STDOUT, text=True)
    if r.returncode != 0:
        sys.stderr.write(r.stdout)
        raise CannotDecide('driver build failed')


def _driver_env(out, tgt):
    env = dict(os.environ)
    sysroot = nightly_sysroot()
    env['LD_LIBRARY_PATH'] = sysroot + '/lib' + (':' + env['LD_LIBRARY_PATH'] if env.get('LD_LIBRARY_PATH') else '')
    env['RUSTFLAGS'] = '-Zmir-opt-level=0 -Awarnings'
    env['RUSTC_WRAPPER'] = DRIVER
    env.pop('RUSTC_WORKSPACE_WRAPPER', None)
    env['GIMLI_FACTS_OUT'] = out
    env['CARGO_TARGET_DIR'] = tgt
    env['CARGO_NET_OFFLINE'] = 'true'
    env['CARGO_INCREMENTAL'] = '0'
    return env


class Extraction:
    """Runs the driver over /repo's *current working tree* in a scratch dir that is removed
    afterwards.  `main` = the test-suite feature set (default + fallible-iterator) together
    with the fixture crate; extra feature sets on request."""

    def __init__(self, repo=REPO):
        self.repo = repo
        self.tmp = tempfile.mkdtemp(prefix='gimli-verif-')
        self.facts = {}
        self.times = {}

    def close(self):
        shutil.rmtree(self.tmp, ignore_errors=True)

    def main(self):
        if 'main' in self.facts:
            return self.facts['main'], self.facts['fixture']
        t0 = time.time()
        build_driver()
        fx = os.path.join(self.tmp, 'fx')
        shutil.copytree(os.path.join(VERIF, 'fixtures'), fx)
        # point the fixture at the repo under analysis
        ct = open(os.path.join(fx, 'Cargo.toml')).read().replace('path = "/repo"', 'path = "%s"' % self.repo)
        open(os.path.join(fx, 'Cargo.toml'), 'w').write(ct)
        lock = os.path.join(self.repo, 'Cargo.lock')
        if os.path.exists(lock):
            shutil.copy(lock, os.path.join(fx, 'Cargo.lock'))
        out = os.path.join(self.tmp, 'out-main')
        os.makedirs(out)
        env = _driver_env(out, os.path.join(self.tmp, 'tgt-main'))
        r = subprocess.run(['cargo', '+nightly', 'check', '--offline', '--lib'], cwd=fx, env=env,
                           stdout=subprocess.PIPE, stderr=subprocess.STDOUT, text=True)
        if r.returncode != 0:
            sys.stderr.write(r.stdout[-4000:])
            raise CannotDecide('cargo check of /repo failed under the fact driver (does the tree compile?)')
        gp = os.path.join(out, 'gimli.facts.json')
        fp = os.path.join(out, 'verif_fixture.facts.json')
        if not os.path.exists(gp) or not os.path.exists(fp):
            raise CannotDecide('driver produced no fact file (wrapper skipped?)')
        self.facts['main'] = Facts(gp)
        self.facts['fixture'] = Facts(fp, strip_prefix='gimli::')
        shutil.rmtree(os.path.join(self.tmp, 'tgt-main'), ignore_errors=True)
        self.times['main'] = time.time() - t0
        return self.facts['main'], self.facts['fixture']

    def feature_set(self, name):
        if name in self.facts:
            return self.facts[name]
        t0 = time.time()
        build_driver()
        out = os.path.join(self.tmp, 'out-' + name)
        os.makedirs(out)
        tgt = os.path.join(self.tmp, 'tgt-' + name)
        env = _driver_env(out, tgt)
        env['GIMLI_FACTS_CRATES'] = 'gimli'
        r = subprocess.run(['cargo', '+nightly', 'check', '--offline', '-p', 'gimli', '--lib'] + FEATURE_SETS[name],
                           cwd=self.repo, env=env, stdout=subprocess.PIPE, stderr=subprocess.STDOUT, text=True)
        if r.returncode != 0:
            sys.stderr.write(r.stdout[-4000:])
            raise CannotDecide('cargo check (%s) failed' % name)
        gp = os.path.join(out, 'gimli.facts.json')
        if not os.path.exists(gp):
            raise CannotDecide('driver produced no fact file for feature set ' + name)
        self.facts[name] = Facts(gp, renames=False)    # a feature subset: functions are absent, not renamed
        shutil.rmtree(tgt, ignore_errors=True)
        self.times[name] = time.time() - t0
        return self.facts[name]


# -------------------------------------------------------------------------------------------

class Ob:
    """One obligation: something a rule examined and either discharged or not."""
    __slots__ = ('rule', 'key', 'status', 'detail', 'loc', 'why', 'nontrivial', 'nf')

    def __init__(self, rule, key, ok, detail='', loc='', why='', nontrivial=True, nf=None):
        self.rule = rule
        self.key = key
        self.nf = nf             # name-free form of the key (no local-variable names, no temporary numbers); tables match on it
        self.status = 'ok' if ok else 'violation'
        self.detail = detail
        self.loc = loc
        self.why = why           # discharge reason
        self.nontrivial = nontrivial

    def to_json(self):
        d = {'rule': self.rule, 'key': self.key, 'status': self.status, 'loc': self.loc,
             'detail': self.detail, 'why': self.why}
        if self.nf is not None:
            d['nf'] = self.nf
        return d


def load_table(name, default):
    if os.environ.get('VERIF_NO_TABLES'):     # maintainer mode for tools/triage.py
        return default
    p = os.path.join(VERIF, name)
    if not os.path.exists(p):
        return default
    with open(p) as f:
        return json.load(f)


class Tables:
    def __init__(self):
        self.reviewed = load_table('tables/reviewed_sites.json', {'sites': []})['sites']
        kf = load_table('known_findings.json', {'findings': [], 'fixed': []})
        self.known = kf.get('findings', [])
        self.fixed = kf.get('fixed', [])
        self.expect = load_table('tables/expectations.json', {})
        # entries are matched by their name-free key `nf` when they have one (renaming a local or adding a `let` must not
        # detach a reviewed reason from its site); `key` is the readable form and the fallback for rules without an nf form
        self._rev = {}
        self._rev_nf = {}
        for e in self.reviewed:
            self._rev[(e['rule'], e['key'])] = e
            if e.get('nf'):
                self._rev_nf[(e['rule'], e['nf'])] = e
        self._known = {}
        self._known_nf = {}
        for e in self.known:
            self._known[(e['rule'], e['key'])] = e
            if e.get('nf'):
                self._known_nf[(e['rule'], e['nf'])] = e

    def reviewed_entry(self, rule, key, nf=None):
        if nf is not None:
            return self._rev_nf.get((rule, nf))
        return self._rev.get((rule, key))

    def known_entry(self, rule, key, nf=None):
        if nf is not None:
            return self._known_nf.get((rule, nf))
        return self._known.get((rule, key))


class Report:
    def __init__(self, prop, tier, tables):
        self.prop = prop
        self.tier = tier
        self.tables = tables
        self.obs = []
        self.notes = []
        self.broken = []          # reasons the check cannot decide (fail closed)
        self.rule_docs = {}
        self.used_reviewed = set()
        self.used_known = set()
        self.assumptions = []
        self.t0 = time.time()

    def rule(self, rid, doc):
        self.rule_docs[rid] = doc

    def add(self, ob):
        """Apply reviewed / known tables by exact key, then record."""
        if ob.status == 'violation':
            r = self.tables.reviewed_entry(ob.rule, ob.key, ob.nf)
            if r is not None:
                ob.status = 'reviewed'
                ob.why = r.get('reason', '')
                self.used_reviewed.add((ob.rule, ob.key))
            else:
                k = self.tables.known_entry(ob.rule, ob.key, ob.nf)
                if k is not None and (k.get('property') in (None, self.prop) or self.prop in k.get('properties', [])):
                    ob.status = 'known'
                    ob.why = k.get('what', '')
                    self.used_known.add((ob.rule, ob.key))
        self.obs.append(ob)
        return ob

    def add_raw(self, rule, key, status, detail='', loc=''):
        """record an obligation without consulting the reviewed / known tables"""
        ob = Ob(rule, key, status == 'ok', detail, loc)
        self.obs.append(ob)
        return ob

    def ok(self, rule, key, detail='', loc='', why='', nontrivial=True):
        return self.add(Ob(rule, key, True, detail, loc, why, nontrivial))

    def bad(self, rule, key, detail='', loc='', nf=None):
        return self.add(Ob(rule, key, False, detail, loc, nf=nf))

    def check(self, rule, key, cond, detail='', loc='', why=''):
        return self.add(Ob(rule, key, bool(cond), detail, loc, why if cond else ''))

    def note(self, s):
        self.notes.append(s)

    def cannot_decide(self, why):
        self.broken.append(why)

    def floor(self, rule, what, count, floor):
        if count < floor:
            self.cannot_decide('%s: %s = %d is below the confirmed floor %d (rule would pass vacuously)'
                               % (rule, what, count, floor))

    # ---------------------------------------------------------------------------------
    def finish(self, checker_cmd, explanation, extra_cov=None, trusted=None):
        viol = [o for o in self.obs if o.status == 'violation']
        known = [o for o in self.obs if o.status == 'known']
        wall = time.time() - self.t0
        by_rule = {}
        for o in self.obs:
            d = by_rule.setdefault(o.rule, {'obligations': 0, 'ok': 0, 'reviewed': 0, 'known': 0, 'violation': 0})
            d['obligations'] += 1
            d[o.status] += 1
        samples = []
        seen_rules = {}
        for o in self.obs:
            n = seen_rules.get(o.rule, 0)
            if n < 3:
                seen_rules[o.rule] = n + 1
                samples.append(o.to_json())
        for o in viol[:20]:
            samples.append(o.to_json())
        distinct = len({(o.rule, o.key) for o in self.obs if o.nontrivial})
        cov = {
            'explanation': explanation,
            'obligations': len(self.obs),
            'discharged': len([o for o in self.obs if o.status in ('ok', 'reviewed')]),
            'discharged_structurally': len([o for o in self.obs if o.status == 'ok']),
            'discharged_by_review': len([o for o in self.obs if o.status == 'reviewed']),
            'known_findings': len(known),
            'evaluations': len(self.obs),
            'distinct_nontrivial': distinct,
            'rule': 'one obligation per (rule, site/arm/field/path key) found by querying the type-checked MIR of '
                    '/repo; distinct = distinct (rule,key); non-trivial = the rule had to inspect code to decide it',
            'rules': {r: dict(by_rule.get(r, {}), doc=self.rule_docs.get(r, '')) for r in
                      sorted(set(list(by_rule) + list(self.rule_docs)))},
            'samples': samples,
            'checker_cmd': checker_cmd,
            'trusted_base': trusted or [
                'rustc nightly MIR (mir-opt-level=0) of the host target faithfully represents /repo',
                'hand-transcribed tables under /verif/tables (spec layouts, reviewed reasons)',
                'documented contracts of core/alloc/hashbrown/indexmap and of user callbacks',
            ],
            'notes': self.notes,
            'cannot_decide': self.broken,
            'exhaustive': False,
        }
        if extra_cov:
            cov.update(extra_cov)
        ev = {
            'property_id': self.prop,
            'tier': self.tier,
            'seed': int(os.environ.get('VERIF_SEED', '0') or 0),
            'level': 'other',
            'coverage': cov,
            'assumptions': self.assumptions or [
                'host target only (x86_64, 64-bit usize); R::Offset modelled as usize',
                'feature set analysed: the test-suite build (default + fallible-iterator)',
            ],
            'wall_s': round(wall, 2),
            'violations': len(viol),
        }
        os.makedirs(os.path.join(VERIF, 'evidence'), exist_ok=True)
        with open(os.path.join(VERIF, 'evidence', self.prop + '.json'), 'w') as f:
            json.dump(ev, f, indent=1)
        dump = os.environ.get('VERIF_DUMP_OPEN')
        if dump:
            with open(dump, 'w') as f:
                json.dump([o.to_json() for o in viol], f, indent=1)
        # output
        for o in known:
            print('KNOWN-FINDING: property=%s %s [%s %s] %s' % (self.prop, o.why, o.rule, o.key, o.loc))
        rc = 0
        if viol:
            rdir = os.path.join(VERIF, 'evidence', 'replay')
            os.makedirs(rdir, exist_ok=True)
            for i, o in enumerate(viol):
                rp = os.path.join(rdir, '%s-%d.json' % (self.prop, i))
                with open(rp, 'w') as f:
                    json.dump({'property': self.prop, 'obligation': o.to_json(),
                               'rule_doc': self.rule_docs.get(o.rule, '')}, f, indent=1)
                print('%s: %s [%s] %s' % (o.loc, o.rule, o.key, o.detail))
                print('VIOLATION property=%s replay=%s' % (self.prop, rp))
            rc = 1
        if self.broken:
            for b in self.broken:
                print('CANNOT-DECIDE property=%s %s' % (self.prop, b))
            if rc == 0:
                rc = 2
        print('%s: %d obligations, %d structural, %d reviewed, %d known findings, %d violations (%.1fs)'
              % (self.prop, len(self.obs), cov['discharged_structurally'], cov['discharged_by_review'],
                 len(known), len(viol), wall))
        return rc


class VariantReport:
    """Forwards obligations of an additional feature-set analysis into the main report.  Floors and
    missing anchors are not failures there (the functions may be compiled out); obligations whose
    (rule, key) already exists in the main report with the same status are not duplicated."""

    def __init__(self, main, label):
        self.main = main
        self.label = label
        self.tables = main.tables
        self.tier = main.tier
        self.prop = main.prop
        self.seen = {(o.rule, o.key): o.status for o in main.obs}
        self.added = 0
        self.same = 0

    def rule(self, rid, doc):
        if rid not in self.main.rule_docs:
            self.main.rule(rid, doc)

    def _fwd(self, ob):
        before = self.seen.get((ob.rule, ob.key))
        ob.detail = '[features=%s] %s' % (self.label, ob.detail)
        tmp = Report(self.prop, self.tier, self.tables)
        tmp.add(ob)
        if before is not None and before == ob.status:
            self.same += 1
            return ob
        self.main.obs.append(ob)
        self.main.used_reviewed |= tmp.used_reviewed
        self.seen[(ob.rule, ob.key)] = ob.status
        self.added += 1
        return ob

    def add(self, ob):
        return self._fwd(ob)

    def add_raw(self, rule, key, status, detail='', loc=''):
        ob = Ob(rule, key, status == 'ok', detail, loc)
        before = self.seen.get((rule, key))
        if before == ob.status:
            self.same += 1
            return ob
        ob.detail = '[features=%s] %s' % (self.label, ob.detail)
        self.main.obs.append(ob)
        self.added += 1
        return ob

    def ok(self, rule, key, detail='', loc='', why='', nontrivial=True):
        return self._fwd(Ob(rule, key, True, detail, loc, why, nontrivial))

    def bad(self, rule, key, detail='', loc='', nf=None):
        return self._fwd(Ob(rule, key, False, detail, loc, nf=nf))

    def check(self, rule, key, cond, detail='', loc='', why=''):
        return self._fwd(Ob(rule, key, bool(cond), detail, loc, why if cond else ''))

    def note(self, s):
        self.main.note('[features=%s] %s' % (self.label, s))

    def floor(self, *a, **k):
        pass

    def cannot_decide(self, why):
        self.main.note('[features=%s] not decided there: %s' % (self.label, why))
