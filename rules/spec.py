"""Spec tables: frozen, reviewed per-arm fingerprints (tables/spec/<id>.json) and the generic
rule that compares the code against them.  Extraction kinds:
  arms      match over an enum   -> per variant {writes, calls, errs}          (arms.py)
  eff       match over an enum   -> per variant list of codec atom sequences   (eff.py)
  consteff  match over a newtype constant (DW_FORM_*, DW_OP_* ...) -> per constant name: atom sequences
  constarms match over a newtype constant -> per constant {calls, errs}
  sizeeff   match over an enum in a size() model -> per variant list of size bags
  fneff     whole function -> atom sequences (headers)
Tables are generated once from the pinned tree by tools/gen_spec.py, reviewed against the DWARF
standard / the sibling implementation, and then only edited by hand."""
import json
import os
from collections import defaultdict, Counter

from . import arms as A
from . import eff as E
from . import ctl as CT
from .core import FEATURE_SETS
FEATURE_SET_NAMES = set(FEATURE_SETS)
from .facts import MissingAnchor

V = os.path.dirname(os.path.dirname(os.path.abspath(__file__)))


def find_const_switch(fn, const_ty, which=0):
    """switch on `(x.0)` where x has the newtype constant type (e.g. constants::DwForm)"""
    g = fn.facts
    n = 0
    for bi in sorted(fn.reach):
        t = fn.term(bi)
        if t['k'] != 'switch':
            continue
        d = t['d']
        if d[0] not in ('c', 'm'):
            continue
        pl = d[1]
        ty = None
        if len(pl) >= 2 and isinstance(pl[-1], list) and pl[-1][0] == 'f' and pl[-1][3] is not None:
            ty = g.strs[pl[-1][3]]
        elif len(pl) == 1:
            # discriminant copied out of the newtype into a temp
            sd = fn.single_def(pl[0])
            if sd is not None and sd[1] != 'term' and sd[2][0] == 'use' and sd[2][1][0] in ('c', 'm'):
                p2 = sd[2][1][1]
                if len(p2) >= 2 and isinstance(p2[-1], list) and p2[-1][0] == 'f' and p2[-1][3] is not None:
                    ty = g.strs[p2[-1][3]]
        if ty == const_ty and len(t['v']) >= 3:
            if n == which:
                return bi, t
            n += 1
    raise MissingAnchor('no match over %s constants (#%d) found in %s' % (const_ty, which, fn.path))


def const_arm_groups(g, fn, const_ty, which=0):
    sw, t = find_const_switch(fn, const_ty, which)
    names = g.const_names(const_ty)
    by = defaultdict(list)
    for v, tgt in t['v']:
        by[tgt].append(names.get(v, '0x%x' % v))
    return sw, t, by, max(len(names), len(t['v']))


def enum_arm_groups(g, fn, enum_path, which=0):
    sw, t, pl = A.find_enum_switch(fn, enum_path, which)
    names = A.variant_names(g, enum_path)
    by = defaultdict(list)
    for v, tgt in t['v']:
        by[tgt].append(names.get(v, 'discr%d' % v))
    listed = {v for v, _ in t['v']}
    rest = [names[v] for v in names if v not in listed]
    if rest and fn.term(t['o'])['k'] != 'unreachable':
        by[t['o']] += ['*wildcard*:' + ','.join(sorted(rest))]
    return sw, t, by, len(names)


def extract(g, spec, lenient=False):
    """lenient (feature-set variants only): functions that are not compiled in this configuration are skipped"""
    kind = spec['kind']
    fn = g.fn(spec['fn']) if 'fn' in spec else None
    which = spec.get('which', 0)
    out = {}
    if kind == 'arms':
        summ = A.ArmSummarizer(g)
        rows, wildcard = summ.arms(fn, spec['enum'], which, spec.get('receiver', 1))
        out = {k: v for k, v in rows.items()}
        if wildcard:
            out['*wildcard*'] = {'writes': wildcard, 'calls': [], 'errs': []}
        drop = set(spec.get('ignore_calls', []))
        if drop:
            out = {k: dict(v, calls=[c for c in v['calls'] if c not in drop]) for k, v in out.items()}
        return out
    if kind == 'fnsum':
        # whole-body summary of each listed function: stores to *self, calls, error variants
        summ = A.ArmSummarizer(g)
        paths = [p_ for p_ in spec['fns'] if not lenient or p_ in g.fns]
        for path in paths:
            f2 = g.fn(path)
            if spec.get('reads'):
                # F-core: the private helpers a listed function delegates to get their own row (write -> write_ranges)
                for _b, t_ in f2.calls():
                    if 'ptr' in t_['f'] or t_['f'].get('trait'):
                        continue
                    for tgt in g.callee_targets(t_['f']):
                        cf = g.fns[tgt]
                        if cf.vis != 'pub' and cf.kind != 'Closure' and tgt not in paths and cf.file == f2.file:
                            paths.append(tgt)
            cnt = Counter() if spec.get('counts') else None
            w, c, e = summ.summarize_blocks(f2, f2.reach, 1, depth=spec.get('depth', 2), count=cnt)
            out[path] = {'writes': sorted(w), 'calls': sorted(c), 'errs': sorted(e)}
            if cnt is not None:
                out[path]['calls'] = ['%s*%d' % kv for kv in sorted(cnt.items())]
            if spec.get('reads'):
                out[path]['reads'] = sorted(summ.param_field_reads(f2, f2.reach))
            # control structure: which conditions guard each call / store / error, and what loops carry
            out[path]['ctl'] = CT.ctl_fingerprint(f2, summ)
            out[path]['carried'] = CT.carried_locals(f2)
            out[path]['flow'] = CT.flow_fingerprint(f2, summ)
            out[path]['order'] = CT.order_fingerprint(f2, summ)
            # closures are bodies of their own: their content belongs to the row of the function that contains them
            cl = {}
            stack_ = list(g.closures_of.get(path, []))
            while stack_:
                cp = stack_.pop()
                cf = g.fns.get(cp)
                if cf is None:
                    continue
                stack_ += g.closures_of.get(cp, [])
                cw, cc, ce = summ.summarize_blocks(cf, cf.reach, 1, depth=0)
                cl[cp[len(path):]] = {'calls': sorted(cc), 'errs': sorted(ce), 'ctl': CT.ctl_fingerprint(cf, summ),
                                      'flow': CT.flow_fingerprint(cf, summ)}
            if cl:
                # closure numbers follow source order: reordering two independent statements renumbers them, so the rows are
                # kept as an order-free list
                out[path]['closures'] = sorted((json.dumps(v, sort_keys=True) for v in cl.values()))
        return out
    ef = E.Eff(g, extra_atoms=spec.get('extra_atoms'))
    if kind == 'fneff':
        return {'*': E.seqs_to_json(ef.paths(fn, 0))}
    if kind == 'constret':
        # per variant: the named constants (DW_FORM_..., DW_OP_...) that flow into the result
        sw, t, by, nvals = enum_arm_groups(g, fn, spec['enum'], which)
        for tgt, names in by.items():
            region = A.arm_blocks(fn, sw, tgt, nvals)
            consts = set()
            for b in region:
                for st in fn.stmts(b):
                    if st[0] != 'a':
                        continue
                    for o in rv_operands_all(st[2]):
                        if o[0] == 'k' and isinstance(o[2], dict) and o[2].get('named') and not str(o[2]['named']).startswith('promoted'):
                            consts.add(o[2]['named'].split('::')[-1])
            for n in names:
                out[n] = sorted(consts)
        return out
    if kind in ('eff', 'sizeeff'):
        sw, t, by, nvals = enum_arm_groups(g, fn, spec['enum'], which)
    elif kind in ('consteff', 'constarms'):
        sw, t, by, nvals = const_arm_groups(g, fn, spec['const_ty'], which)
    else:
        raise ValueError(kind)
    result_local = 0
    if kind == 'sizeeff':
        # the local that receives the match result: assigned in most arm regions
        cnt = Counter()
        for tgt in by:
            region = A.arm_blocks(fn, sw, tgt, nvals)
            seen = set()
            for b in region:
                for st in fn.stmts(b):
                    if st[0] == 'a' and len(st[1]) == 1:
                        seen.add(st[1][0])
            for l in seen:
                cnt[l] += 1
        cands = [l for l, c in cnt.most_common() if c >= max(2, len(by) // 2) and fn.ty(l) in ('usize', 'u64', 'core::result::Result<usize, write::Error>')]
        if cands:
            result_local = cands[0]
    if kind == 'consteff' and spec.get('eq_consts_prefix'):
        # `if x == CONST.0 { ... }` tests outside the main match (opcodes whose operand is in the opcode byte)
        pre = spec['eq_consts_prefix']
        for bi in sorted(fn.reach):
            tm = fn.term(bi)
            if tm['k'] != 'switch' or g.strs[tm['ty']] != 'bool':
                continue
            d = tm['d']
            if d[0] not in ('c', 'm') or len(d[1]) != 1:
                continue
            sd = fn.single_def(d[1][0])
            if sd is None or sd[1] == 'term' or sd[2][0] != 'bin' or sd[2][1] != 'Eq':
                continue
            cname = None
            for o in (sd[2][2], sd[2][3]):
                if o[0] in ('c', 'm') and len(o[1]) == 2:
                    sdo = fn.single_def(o[1][0])
                    if sdo and sdo[1] != 'term' and sdo[2][0] == 'use' and sdo[2][1][0] == 'k' and isinstance(sdo[2][1][2], dict):
                        nm = (sdo[2][1][2].get('named') or '').split('::')[-1]
                        if nm.startswith(pre):
                            cname = nm
                elif o[0] in ('c', 'm') and len(o[1]) == 1:
                    sdo = fn.single_def(o[1][0])
                    if sdo and sdo[1] != 'term' and sdo[2][0] == 'use' and sdo[2][1][0] in ('c', 'm') and len(sdo[2][1][1]) == 2:
                        sd2 = fn.single_def(sdo[2][1][1][0])
                        if sd2 and sd2[1] != 'term' and sd2[2][0] == 'use' and sd2[2][1][0] == 'k' and isinstance(sd2[2][1][2], dict):
                            nm = (sd2[2][1][2].get('named') or '').split('::')[-1]
                            if nm.startswith(pre):
                                cname = nm
            if cname is None:
                continue
            true_t = [tg for v, tg in tm['v'] if v != 0] or [tm['o']]
            tt = true_t[0]
            region = A._dom_region(fn, tt)
            out[cname] = E.seqs_to_json(ef.paths(fn, tt, region))
    for tgt, names in by.items():
        region = A.arm_blocks(fn, sw, tgt, nvals)
        if kind == 'constarms':
            summ = A.ArmSummarizer(g)
            w, c, e = summ.summarize_blocks(fn, region, spec.get('receiver', 1))
            row = {'calls': sorted(c), 'errs': sorted(e)}
        elif kind == 'sizeeff':
            row = size_bags(fn, region, result_local)
        else:
            row = E.seqs_to_json(ef.paths(fn, tgt, region))
        for n in names:
            out[n] = row
    return out


def rv_operands_all(rv):
    from .facts import rv_operands
    return rv_operands(rv)


def size_bags(fn, region, result_local=0):
    """bags of the values assigned to the return place inside the region"""
    bags = []
    for b in sorted(region):
        for st in fn.stmts(b):
            if st[0] == 'a' and st[1] == [result_local]:
                rvv = st[2]
                terms = None
                if rvv[0] == 'use':
                    terms = E.size_terms(fn, rvv[1])
                elif rvv[0] == 'bin' and rvv[1] in ('Add',):
                    a = E.size_terms(fn, rvv[2])
                    b2 = E.size_terms(fn, rvv[3])
                    if a is not None and b2 is not None:
                        terms = (a[0] + b2[0], a[1] + b2[1])
                elif rvv[0] == 'cast':
                    terms = E.size_terms(fn, rvv[2])
                elif rvv[0] == 'agg' and rvv[1][0] == 'adt' and rvv[1][2] in ('Ok', 'Some') and rvv[2]:
                    terms = E.size_terms(fn, rvv[2][0])
                elif rvv[0] == 'agg' and rvv[1][0] == 'adt' and rvv[1][2] in ('Err', 'None'):
                    continue
                if terms is None:
                    bags.append(['?'])
                else:
                    bags.append([terms[0]] + sorted('%s*%d' % kv for kv in terms[1].items()))
        t = fn.term(b)
        if t['k'] == 'call' and t['d'] == [result_local] and t['f'].get('name') != 'from_residual':
            nm = t['f'].get('name')
            if nm in E.SIZE_ATOMS:
                bags.append([0, '%s*1' % E.SIZE_ATOMS[nm]])
            else:
                bags.append(['?call:%s' % nm])
    uniq = []
    for x in bags:
        if x not in uniq:
            uniq.append(x)
    return sorted(uniq, key=str)


def table_path(spec_id):
    return os.path.join(V, 'tables', 'spec', spec_id + '.json')


def load_table(spec_id):
    p = table_path(spec_id)
    if not os.path.exists(p):
        raise MissingAnchor('spec table %s missing' % p)
    return json.load(open(p))


def row_diff(got, ref):
    """readable difference between an extracted row and its reviewed reference"""
    if isinstance(got, dict) and isinstance(ref, dict):
        parts = []
        for k in sorted(set(got) | set(ref)):
            a, b = got.get(k), ref.get(k)
            if a == b:
                continue
            if isinstance(a, list) and isinstance(b, list) and all(isinstance(x, str) for x in a + b):
                only_code = [x for x in a if x not in b]
                only_ref = [x for x in b if x not in a]
                parts.append('%s: only in code %s; only in reviewed table %s' % (k, json.dumps(only_code), json.dumps(only_ref)))
            elif isinstance(a, dict) and isinstance(b, dict):
                for ck in sorted(set(a) | set(b)):
                    if a.get(ck) != b.get(ck):
                        parts.append('%s%s: %s' % (k, ck, row_diff(a.get(ck, {}), b.get(ck, {}))))
            else:
                parts.append('%s: code %s != reviewed %s' % (k, json.dumps(a), json.dumps(b)))
        return '; '.join(parts)
    return 'code %s != reviewed %s' % (json.dumps(got), json.dumps(ref))


def run_spec(rep, g, spec, rule, lenient=False):
    """compare extraction with the frozen table: one obligation per row"""
    table = load_table(spec['id'])
    rows = table['rows']
    if lenient:
        # a feature-set variant: compare what is compiled there, note what is not
        if 'fn' in spec and spec['fn'] not in g.fns:
            rep.note('%s: %s is not compiled in this configuration' % (spec['id'], spec['fn']))
            return {}
        got = extract(g, spec, lenient=True)
        if spec['kind'] == 'fnsum':
            rows = {k: v for k, v in rows.items() if k in g.fns}
        if not got:
            return {}
        fn = g.fn(spec['fn']) if 'fn' in spec else g.fn(sorted(got)[0])
    else:
        got = extract(g, spec)
        fn = g.fn(spec['fn']) if 'fn' in spec else g.fn(spec['fns'][0])
    loc = fn.loc()
    floor = table.get('floor', max(1, len(rows) - 0))
    if not lenient:
        rep.floor(rule, 'rows of %s' % spec['id'], len(got), floor)
    for name in sorted(set(got) | set(rows)):
        key = '%s|%s' % (spec['id'], name)
        if name not in rows:
            rep.bad(rule, key, 'the code handles %s but the reviewed table %s has no row for it' % (name, spec['id']), loc)
        elif name not in got:
            rep.bad(rule, key, 'the reviewed table %s has a row for %s but the code has no arm for it' % (spec['id'], name), loc)
        elif got[name] != rows[name]:
            rep.bad(rule, key, '%s arm %s: %s' % (spec.get('fn', 'fn').split('::')[-1], name, row_diff(got[name], rows[name])), loc)
        else:
            rep.ok(rule, key, json.dumps(rows[name])[:160], loc, why='equals the reviewed row of tables/spec/%s.json' % spec['id'])
    return got


def run_specs(rep, ctx, prop):
    """run every spec table registered for the property"""
    from .specs_registry import specs_for
    n = 0
    for sp in specs_for(prop):
        rep.rule(sp['rule'], 'per-arm fingerprint (%s) of %s equals the reviewed table tables/spec/%s.json'
                 % (sp['kind'], sp.get('fn') or '%d functions' % len(sp['fns']), sp['id']))
        run_spec(rep, ctx.g, sp, sp['rule'], lenient=getattr(ctx, 'variant', None) in FEATURE_SET_NAMES)
        n += 1
    if getattr(ctx, 'variant', None) not in FEATURE_SET_NAMES:
        from .dwconst import run_K0
        run_K0(rep, ctx.g, prop)
    return n


def size_vs_write(rep, g, rule, size_spec, write_spec, skip_first_atom=False):
    """S: per enum variant, the set of byte bags the size model returns equals the set of bags the
    writer emits (constant bytes summed, symbolic atoms counted). Variants whose summaries contain an
    unresolved atom ('?', loops, sub-codec calls) are compared only through their frozen rows."""
    sz = extract(g, size_spec)
    wr = extract(g, write_spec)
    fn = g.fn(size_spec['fn'])
    deltas = Counter()
    rows = {}
    for v in sorted(set(sz) & set(wr)):
        sb = set()
        ok = True
        for bag in sz[v]:
            bag = [('ADDR*1' if x == '?call:address_size*1' else x) for x in bag]
            if any(isinstance(x, str) and x.startswith('?') for x in bag):
                ok = False
            else:
                sb.add((bag[0], tuple(sorted(bag[1:]))))
        wb = set()
        for seq in wr[v]:
            if any(a.startswith('*') or a.startswith('CALL') for a in seq):
                ok = False
                continue
            c, sym = E.bag_of(seq)
            # offset-sized fields: write_offset / write_reference / write_udata(.., word size) all count as WORD
            norm = Counter()
            for k, n_ in sym:
                norm[{'OFF': 'WORD', 'BN': 'WORD'}.get(k, k)] += n_
            sym = tuple('%s*%d' % kv for kv in sorted(norm.items()))
            wb.add((c, sym))
        rows[v] = (ok, sb, wb)
    # constant offset between the two models (e.g. the opcode byte added outside the match)
    for v, (ok, sb, wb) in rows.items():
        if ok and len(sb) == 1 and len(wb) == 1:
            (c1, s1), = sb
            (c2, s2), = wb
            if s1 == s2:
                deltas[c2 - c1] += 1
    delta = deltas.most_common(1)[0][0] if deltas else 0
    n = 0
    for v, (ok, sb, wb) in rows.items():
        key = '%s~%s|%s' % (size_spec['id'], write_spec['id'], v)
        if not ok or not sb or not wb:
            rep.ok(rule, key, 'unresolved atoms: compared through the frozen rows only', fn.loc(), why='not comparable', nontrivial=False)
            continue
        n += 1
        sb2 = {(c + delta, s) for c, s in sb}
        if sb2 != wb:
            # a write of symbolic width (write_udata(val, size) / write_reference(.., size)) was counted as WORD;
            # the size model may legitimately name the address size for it (DW_FORM_ref_addr in DWARF 2)
            def widen(bags):
                out = set()
                for c, s_ in bags:
                    cnt = Counter()
                    for item in s_:
                        k, n_ = item.rsplit('*', 1)
                        cnt['WORD' if k == 'ADDR' else k] += int(n_)
                    out.add((c, tuple('%s*%d' % kv for kv in sorted(cnt.items()))))
                return out
            if widen(sb2) == widen(wb) and any('ADDR' in str(x) for x in sb2):
                rep.ok(rule, key, 'size %s == write %s up to the symbolic width of the sized write' % (sorted(sb), sorted(wb)), fn.loc(),
                       why='bag equality modulo symbolic field width (exact widths are pinned by the frozen rows)')
                continue
        if sb2 == wb:
            rep.ok(rule, key, 'size %s == write %s (offset %d)' % (sorted(sb), sorted(wb), delta), fn.loc(), why='bag equality')
        else:
            rep.bad(rule, key, 'size model %s (+%d) differs from emitted bytes %s' % (sorted(sb), delta, sorted(wb)), fn.loc())
    return n


# ------------------------------------------------------------------------------------------
# K1: writer arm  <->  reader arm for the same opcode / form constant

def _compatible(w, r, b1_is_uleb=False):
    """writer atom sequence vs reader atom sequence (both without the opcode byte)"""
    w = list(w)
    r = list(r)
    # string: BYTES + NUL byte  <->  CSTR
    def norm(seq, side):
        out = []
        i = 0
        while i < len(seq):
            a = seq[i]
            if side == 'w' and a == 'BYTES' and i + 1 < len(seq) and seq[i + 1] == 'B1':
                out.append('CSTR')
                i += 2
                continue
            out.append(a)
            i += 1
        return out
    w, r = norm(w, 'w'), norm(r, 'r')
    if len(w) != len(r):
        return False
    for a, b in zip(w, r):
        if a == b:
            continue
        fixed = {'B1', 'B2', 'B3', 'B4', 'B8', 'B16'}
        if a == 'BN' and (b in fixed or b in ('OFFN', 'BN')):
            continue
        if b in ('BN', 'OFFN') and a in fixed:
            continue
        if a in ('BYTES', 'DATA', 'CALL:write', 'EXPR', 'LEXPR') and b in ('BYTES', 'DATA'):
            continue
        if a == 'BN' and b in ('OFF', 'ADDR'):
            continue    # placeholder written with write_udata and patched by a fix-up (converse direction: note only)
        if a == 'B1' and b == 'ULEB' and b1_is_uleb:
            continue    # single-byte ULEB literal (base type 0)
        if a == 'BYTES' and b == 'ULEB' and b1_is_uleb:
            continue    # ULEB pre-encoded into a buffer (its length is needed first)
        if a == 'OFF' and b == 'OFFN':
            continue
        if a == 'EH' and b in ('EH', 'ADDR'):
            continue
        return False
    return True


def named_consts_per_arm(g, spec, prefix):
    """variant -> named constants with the given prefix used in the variant's arm"""
    fn = g.fn(spec['fn'])
    sw, t, by, nvals = enum_arm_groups(g, fn, spec['enum'], spec.get('which', 0))
    out = {}
    for tgt, names in by.items():
        region = A.arm_blocks(fn, sw, tgt, nvals)
        consts = set()
        for b in region:
            for st in fn.stmts(b):
                if st[0] != 'a':
                    continue
                for o in rv_operands_all(st[2]):
                    if o[0] == 'k' and isinstance(o[2], dict) and o[2].get('named'):
                        nm = o[2]['named'].split('::')[-1]
                        if nm.startswith(prefix):
                            consts.add(nm)
            tm = fn.term(b)
            if tm['k'] == 'call':
                for o in tm['a']:
                    if o[0] == 'k' and isinstance(o[2], dict) and o[2].get('named'):
                        nm = o[2]['named'].split('::')[-1]
                        if nm.startswith(prefix):
                            consts.add(nm)
        for n in names:
            out[n] = sorted(consts)
    return out


def k1_pairing(rep, g, rule, writer_spec, reader_specs, prefix, strip_opcode=True, consts_from=None, skip_variants=(),
               strip_prefix=None, b1_is_uleb_for=()):
    """For every writer variant: each emitted operand sequence (opcode byte stripped) must be what the
    reader consumes for one of the opcode/form constants the arm uses, and a relocatable writer atom
    (OFF/ADDR/EH) must meet a relocatable reader atom."""
    rep.rule(rule, 'writer <-> reader pairing: per %s variant, every emitted operand sequence equals the operand sequence the reader '
             'consumes for one of the %s* constants the arm emits (relocatable atoms pair with relocatable atoms)' % (writer_spec['enum'].split('::')[-1], prefix))
    wrows = extract(g, writer_spec)
    rrows = {}
    for rs in reader_specs:
        rrows.update(extract(g, rs))
    consts = consts_from if consts_from is not None else named_consts_per_arm(g, writer_spec, prefix)
    fn = g.fn(writer_spec['fn'])
    n = 0
    for v in sorted(wrows):
        if v in skip_variants or v.startswith('*'):
            continue
        cs = [c for c in consts.get(v, []) if c in rrows]
        seqs = [s_ for s_ in wrows[v] if not any(a.startswith('*') for a in s_)]
        key = '%s|%s' % (writer_spec['id'], v)
        if not cs:
            rep.ok(rule, key, 'no reader row for constants %s (operand encoded in the opcode byte or writer-only form)' % consts.get(v, []),
                   fn.loc(), why='not comparable', nontrivial=False)
            continue
        n += 1
        def body_of(s_, c):
            if strip_prefix and c.startswith(strip_prefix[0]) and s_[:len(strip_prefix[1])] == strip_prefix[1]:
                return s_[len(strip_prefix[1]):]
            return s_[1:] if strip_opcode and s_ and s_[0] == 'B1' else s_
        full = seqs
        b1u = v in b1_is_uleb_for
        bad = [s_ for s_ in full if not any(_compatible(body_of(s_, c), r, b1u) for c in cs for r in rrows[c])]
        unmatched = [c for c in cs if not any(_compatible(body_of(s_, c), r, b1u) for s_ in full for r in rrows[c])]
        seqs = full
        if bad:
            rep.bad(rule, key, 'writer emits %s, but the reader consumes %s for %s' % (bad, {c: rrows[c] for c in cs}, cs), fn.loc())
        elif unmatched and seqs:
            rep.bad(rule, key, 'writer arm uses %s but emits no operand sequence the reader accepts for it (%s vs %s)'
                    % (unmatched, seqs, {c: rrows[c] for c in unmatched}), fn.loc())
        else:
            rep.ok(rule, key, 'writer %s pairs with reader rows of %s' % (seqs, cs), fn.loc(), why='atom-wise compatible')
    return n
