"""Spec tables: frozen, reviewed per-arm fingerprints (tables/spec/<id>.json) and the generic
rule that compares the code against them.  Extraction kinds:
  arms      match over an enum   -> per variant {writes, calls, errs}          (arms.py)
  eff       match over an enum   -> per variant list of codec atom sequences   (eff.py)
  consteff  match over a newtype constant (DW_FORM_*, DW_OP_* ...) -> per constant name: atom sequences
  constarms match over a newtype constant -> per constant {calls, errs}
  sizeeff   match over an enum in a size() model -> per variant list of size bags
  fneff     whole function -> atom sequences (headers)
Tables are generated once from the pinned tree by tools/gen_spec.py, reviewed against the DWARF
standard / the sibling implementation, and then only edited by hand."""
import json
import os
from collections import defaultdict, Counter

from . import arms as A
from . import eff as E
from .facts import MissingAnchor

V = os.path.dirname(os.path.dirname(os.path.abspath(__file__)))


def find_const_switch(fn, const_ty, which=0):
    """switch on `(x.0)` where x has the newtype constant type (e.g. constants::DwForm)"""
    g = fn.facts
    n = 0
    for bi in sorted(fn.reach):
        t = fn.term(bi)
        if t['k'] != 'switch':
            continue
        d = t['d']
        if d[0] not in ('c', 'm'):
            continue
        pl = d[1]
        ty = None
        if len(pl) >= 2 and isinstance(pl[-1], list) and pl[-1][0] == 'f' and pl[-1][3] is not None:
            ty = g.strs[pl[-1][3]]
        elif len(pl) == 1:
            # discriminant copied out of the newtype into a temp
            sd = fn.single_def(pl[0])
            if sd is not None and sd[1] != 'term' and sd[2][0] == 'use' and sd[2][1][0] in ('c', 'm'):
                p2 = sd[2][1][1]
                if len(p2) >= 2 and isinstance(p2[-1], list) and p2[-1][0] == 'f' and p2[-1][3] is not None:
                    ty = g.strs[p2[-1][3]]
        if ty == const_ty and len(t['v']) >= 3:
            if n == which:
                return bi, t
            n += 1
    raise MissingAnchor('no match over %s constants (#%d) found in %s' % (const_ty, which, fn.path))


def const_arm_groups(g, fn, const_ty, which=0):
    sw, t = find_const_switch(fn, const_ty, which)
    names = g.const_names(const_ty)
    by = defaultdict(list)
    for v, tgt in t['v']:
        by[tgt].append(names.get(v, '0x%x' % v))
    return sw, t, by


def enum_arm_groups(g, fn, enum_path, which=0):
    sw, t, pl = A.find_enum_switch(fn, enum_path, which)
    names = A.variant_names(g, enum_path)
    by = defaultdict(list)
    for v, tgt in t['v']:
        by[tgt].append(names.get(v, 'discr%d' % v))
    listed = {v for v, _ in t['v']}
    rest = [names[v] for v in names if v not in listed]
    if rest and fn.term(t['o'])['k'] != 'unreachable':
        by[t['o']] += ['*wildcard*:' + ','.join(sorted(rest))]
    return sw, t, by


def extract(g, spec):
    kind = spec['kind']
    fn = g.fn(spec['fn']) if 'fn' in spec else None
    which = spec.get('which', 0)
    out = {}
    if kind == 'arms':
        summ = A.ArmSummarizer(g)
        rows, wildcard = summ.arms(fn, spec['enum'], which, spec.get('receiver', 1))
        out = {k: v for k, v in rows.items()}
        if wildcard:
            out['*wildcard*'] = {'writes': wildcard, 'calls': [], 'errs': []}
        drop = set(spec.get('ignore_calls', []))
        if drop:
            out = {k: dict(v, calls=[c for c in v['calls'] if c not in drop]) for k, v in out.items()}
        return out
    if kind == 'fnsum':
        # whole-body summary of each listed function: stores to *self, calls, error variants
        summ = A.ArmSummarizer(g)
        for path in spec['fns']:
            f2 = g.fn(path)
            w, c, e = summ.summarize_blocks(f2, f2.reach, 1, depth=spec.get('depth', 2))
            out[path] = {'writes': sorted(w), 'calls': sorted(c), 'errs': sorted(e)}
        return out
    ef = E.Eff(g, extra_atoms=spec.get('extra_atoms'))
    if kind == 'fneff':
        return {'*': E.seqs_to_json(ef.paths(fn, 0))}
    if kind in ('eff', 'sizeeff'):
        sw, t, by = enum_arm_groups(g, fn, spec['enum'], which)
    elif kind in ('consteff', 'constarms'):
        sw, t, by = const_arm_groups(g, fn, spec['const_ty'], which)
    else:
        raise ValueError(kind)
    result_local = 0
    if kind == 'sizeeff':
        # the local that receives the match result: assigned in most arm regions
        cnt = Counter()
        for tgt in by:
            region = A.arm_blocks(fn, sw, tgt)
            seen = set()
            for b in region:
                for st in fn.stmts(b):
                    if st[0] == 'a' and len(st[1]) == 1:
                        seen.add(st[1][0])
            for l in seen:
                cnt[l] += 1
        cands = [l for l, c in cnt.most_common() if c >= max(2, len(by) // 2) and fn.ty(l) in ('usize', 'u64', 'core::result::Result<usize, write::Error>')]
        if cands:
            result_local = cands[0]
    for tgt, names in by.items():
        region = A.arm_blocks(fn, sw, tgt)
        if kind == 'constarms':
            summ = A.ArmSummarizer(g)
            w, c, e = summ.summarize_blocks(fn, region, spec.get('receiver', 1))
            row = {'calls': sorted(c), 'errs': sorted(e)}
        elif kind == 'sizeeff':
            row = size_bags(fn, region, result_local)
        else:
            row = E.seqs_to_json(ef.paths(fn, tgt, region))
        for n in names:
            out[n] = row
    return out


def size_bags(fn, region, result_local=0):
    """bags of the values assigned to the return place inside the region"""
    bags = []
    for b in sorted(region):
        for st in fn.stmts(b):
            if st[0] == 'a' and st[1] == [result_local]:
                rvv = st[2]
                terms = None
                if rvv[0] == 'use':
                    terms = E.size_terms(fn, rvv[1])
                elif rvv[0] == 'bin' and rvv[1] in ('Add',):
                    a = E.size_terms(fn, rvv[2])
                    b2 = E.size_terms(fn, rvv[3])
                    if a is not None and b2 is not None:
                        terms = (a[0] + b2[0], a[1] + b2[1])
                elif rvv[0] == 'cast':
                    terms = E.size_terms(fn, rvv[2])
                elif rvv[0] == 'agg' and rvv[1][0] == 'adt' and rvv[1][2] in ('Ok', 'Some') and rvv[2]:
                    terms = E.size_terms(fn, rvv[2][0])
                elif rvv[0] == 'agg' and rvv[1][0] == 'adt' and rvv[1][2] in ('Err', 'None'):
                    continue
                if terms is None:
                    bags.append(['?'])
                else:
                    bags.append([terms[0]] + sorted('%s*%d' % kv for kv in terms[1].items()))
        t = fn.term(b)
        if t['k'] == 'call' and t['d'] == [result_local] and t['f'].get('name') != 'from_residual':
            nm = t['f'].get('name')
            if nm in E.SIZE_ATOMS:
                bags.append([0, '%s*1' % E.SIZE_ATOMS[nm]])
            else:
                bags.append(['?call:%s' % nm])
    uniq = []
    for x in bags:
        if x not in uniq:
            uniq.append(x)
    return sorted(uniq, key=str)


def table_path(spec_id):
    return os.path.join(V, 'tables', 'spec', spec_id + '.json')


def load_table(spec_id):
    p = table_path(spec_id)
    if not os.path.exists(p):
        raise MissingAnchor('spec table %s missing' % p)
    return json.load(open(p))


def run_spec(rep, g, spec, rule):
    """compare extraction with the frozen table: one obligation per row"""
    table = load_table(spec['id'])
    rows = table['rows']
    got = extract(g, spec)
    fn = g.fn(spec['fn']) if 'fn' in spec else g.fn(spec['fns'][0])
    loc = fn.loc()
    floor = table.get('floor', max(1, len(rows) - 0))
    rep.floor(rule, 'rows of %s' % spec['id'], len(got), floor)
    for name in sorted(set(got) | set(rows)):
        key = '%s|%s' % (spec['id'], name)
        if name not in rows:
            rep.bad(rule, key, 'the code handles %s but the reviewed table %s has no row for it' % (name, spec['id']), loc)
        elif name not in got:
            rep.bad(rule, key, 'the reviewed table %s has a row for %s but the code has no arm for it' % (spec['id'], name), loc)
        elif got[name] != rows[name]:
            rep.bad(rule, key, '%s arm %s: code %s != reviewed %s' % (spec.get('fn', 'fn').split('::')[-1], name,
                                                                   json.dumps(got[name]), json.dumps(rows[name])), loc)
        else:
            rep.ok(rule, key, json.dumps(rows[name])[:160], loc, why='equals the reviewed row of tables/spec/%s.json' % spec['id'])
    return got


def run_specs(rep, ctx, prop):
    """run every spec table registered for the property"""
    from .specs_registry import specs_for
    n = 0
    for sp in specs_for(prop):
        rep.rule(sp['rule'], 'per-arm fingerprint (%s) of %s equals the reviewed table tables/spec/%s.json'
                 % (sp['kind'], sp.get('fn') or '%d functions' % len(sp['fns']), sp['id']))
        run_spec(rep, ctx.g, sp, sp['rule'])
        n += 1
    return n


def size_vs_write(rep, g, rule, size_spec, write_spec, skip_first_atom=False):
    """S: per enum variant, the set of byte bags the size model returns equals the set of bags the
    writer emits (constant bytes summed, symbolic atoms counted). Variants whose summaries contain an
    unresolved atom ('?', loops, sub-codec calls) are compared only through their frozen rows."""
    sz = extract(g, size_spec)
    wr = extract(g, write_spec)
    fn = g.fn(size_spec['fn'])
    deltas = Counter()
    rows = {}
    for v in sorted(set(sz) & set(wr)):
        sb = set()
        ok = True
        for bag in sz[v]:
            if any(isinstance(x, str) and x.startswith('?') for x in bag):
                ok = False
            else:
                sb.add((bag[0], tuple(bag[1:])))
        wb = set()
        for seq in wr[v]:
            if any(a.startswith('*') or a.startswith('CALL') for a in seq):
                ok = False
                continue
            c, sym = E.bag_of(seq)
            sym = tuple('%s*%d' % kv for kv in sym)
            wb.add((c, sym))
        rows[v] = (ok, sb, wb)
    # constant offset between the two models (e.g. the opcode byte added outside the match)
    for v, (ok, sb, wb) in rows.items():
        if ok and len(sb) == 1 and len(wb) == 1:
            (c1, s1), = sb
            (c2, s2), = wb
            if s1 == s2:
                deltas[c2 - c1] += 1
    delta = deltas.most_common(1)[0][0] if deltas else 0
    n = 0
    for v, (ok, sb, wb) in rows.items():
        key = '%s~%s|%s' % (size_spec['id'], write_spec['id'], v)
        if not ok or not sb or not wb:
            rep.ok(rule, key, 'unresolved atoms: compared through the frozen rows only', fn.loc(), why='not comparable', nontrivial=False)
            continue
        n += 1
        sb2 = {(c + delta, s) for c, s in sb}
        if sb2 == wb:
            rep.ok(rule, key, 'size %s == write %s (offset %d)' % (sorted(sb), sorted(wb), delta), fn.loc(), why='bag equality')
        else:
            rep.bad(rule, key, 'size model %s (+%d) differs from emitted bytes %s' % (sorted(sb), delta, sorted(wb)), fn.loc())
    return n
