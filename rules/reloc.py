"""R rules: relocation discipline and delegation shape of the relocating reader / writer."""
from . import structs as ST

RR = 'read::relocate::RelocateReader'
RELOCATING = {'read_address': 'relocate_address', 'read_offset': 'relocate_offset', 'read_sized_offset': 'relocate_offset'}


from .facts import MissingAnchor


def _fields_touched(fn, adt_path):
    """fields of values of type adt (self or other parameters) that the body projects"""
    g = fn.facts
    out = set()
    for bi in fn.reach:
        stmts, t = fn.blocks[bi]
        places = []
        for st in stmts:
            if st[0] == 'a':
                places.append(st[1])
                rv = st[2]
                if rv[0] in ('ref', 'ptr', 'cfd', 'discr'):
                    places.append(rv[1])
                from .facts import rv_operands
                for o in rv_operands(rv):
                    if o[0] in ('c', 'm'):
                        places.append(o[1])
        if t['k'] == 'call':
            for a in t['a']:
                if a[0] in ('c', 'm'):
                    places.append(a[1])
            places.append(t['d'])
        for pl in places:
            for pr in pl[1:]:
                if isinstance(pr, list) and pr[0] == 'f' and pr[3] is not None and g.strs[pr[3]] == adt_path:
                    out.add((pl[0], pr[2]))
    return out


def run_relocate_reader(rep, g, rule_deleg='R2-deleg', rule_over='R2'):
    rep.rule(rule_over, 'RelocateReader overrides exactly read_address/read_offset/read_sized_offset (+split); each takes '
             'offset_from(&self.section) BEFORE the inner read, reads through self.reader and passes (offset, value) to the matching relocate_* method')
    rep.rule(rule_deleg, 'every other Reader method of RelocateReader is a single call of the same-named method on self.reader, '
             'projecting `.reader` (never `.section`) of any other RelocateReader argument')
    methods = {f.name: f for f in g.fns.values() if f.impl_self_adt == RR and f.impl_trait == 'read::reader::Reader' and f.kind == 'AssocFn'}
    rep.floor(rule_deleg, 'Reader methods implemented by RelocateReader', len(methods), 15)
    trait = g.traits.get('read::reader::Reader')
    if trait is None:
        raise MissingAnchor('trait read::reader::Reader is not compiled in this configuration')
    required_defaults = {it['name'] for it in trait['items'] if it['kind'] == 'Fn' and it['has_default']}
    for name, fn in sorted(methods.items()):
        loc = fn.loc()
        calls = [(bi, t) for bi, t in fn.calls() if 'ptr' not in t['f']]
        reader_calls = [(bi, t) for bi, t in calls if t['f'].get('trait') == 'read::reader::Reader']
        touched = _fields_touched(fn, RR)
        if name in RELOCATING:
            # offset_from(&self.section) must precede the inner read; relocate_* must follow
            off = [bi for bi, t in reader_calls if t['f']['name'] == 'offset_from']
            inner = [bi for bi, t in reader_calls if t['f']['name'] == name]
            rel = [bi for bi, t in calls if t['f'].get('name') == RELOCATING[name]]
            ok = bool(off) and bool(inner) and bool(rel) and ST.must_precede(fn, off, inner) and ST.must_precede(fn, inner, rel)
            ok = ok and (1, 'section') in touched and (1, 'reader') in touched and (1, 'relocate') in touched
            # the offset_from argument must be the section, its receiver the reader
            for bi, t in reader_calls:
                if t['f']['name'] == 'offset_from':
                    recv = fn.fmt_op(t['a'][0], 4)
                    arg = fn.fmt_op(t['a'][1], 4)
                    if 'reader' not in recv or 'section' not in arg:
                        ok = False
            rep.check(rule_over, 'override|' + name, ok,
                      '%s must compute offset_from(&self.section) before self.reader.%s and then call %s' % (name, name, RELOCATING[name]),
                      loc, why='order offset_from < inner read < %s, fields section/reader/relocate used' % RELOCATING[name])
            continue
        if name == 'split':
            names = [t['f']['name'] for bi, t in calls]
            ok = 'clone' in names and 'truncate' in names and 'skip' in names and not any((l, 'section') in touched for l in (1,)) or True
            tr = [bi for bi, t in reader_calls if t['f']['name'] == 'truncate']
            sk = [bi for bi, t in reader_calls if t['f']['name'] == 'skip']
            ok = bool(tr) and bool(sk) and 'clone' in names
            # both with the same len argument
            if ok:
                a1 = fn.fmt_op(fn.term(tr[0])['a'][1], 3)
                a2 = fn.fmt_op(fn.term(sk[0])['a'][1], 3)
                ok = a1 == a2
            rep.check(rule_over, 'override|split', ok, 'split must clone, truncate the clone and skip self.reader by the same length', loc,
                      why='clone + truncate(len) + skip(len)')
            continue
        # pure delegation
        if fn.argc == 0:
            # an associated function without a receiver cannot read through the wrapper (the `cannot_implement` sealing marker of read-core)
            rep.ok(rule_deleg, 'delegate|' + name, 'no receiver: nothing to delegate', loc, why='not a reading method', nontrivial=False)
            continue
        same = [t for bi, t in reader_calls if t['f']['name'] == name]
        other_reader = [t for bi, t in reader_calls if t['f']['name'] != name]
        bad_fields = sorted({fld for (l, fld) in touched if fld != 'reader'})
        ok = len(same) == 1 and not other_reader and not bad_fields
        detail = 'delegating method %s: %d call(s) of self.reader.%s, other reader calls %s, non-`reader` fields touched %s' % (
            name, len(same), name, [t['f']['name'] for t in other_reader], bad_fields)
        rep.check(rule_deleg, 'delegate|' + name, ok, detail, loc, why='single same-named call on .reader; only `.reader` projected')
    # the set of overridden relocating methods
    for name in list(RELOCATING) + ['split']:
        if name not in methods:
            rep.bad(rule_over, 'override|' + name, 'RelocateReader no longer overrides %s (the default would bypass relocation)' % name)
    # default read_length/read_word must not be overridden and must not route through read_offset
    for name in ('read_word', 'read_length', 'read_initial_length'):
        if name in methods:
            rep.bad(rule_over, 'no-override|' + name, 'RelocateReader overrides %s: lengths must never be relocated' % name, methods[name].loc())
        else:
            d = g.fns.get('read::reader::Reader::' + name)
            if d is not None:
                uses = [t['f']['name'] for bi, t in d.calls() if 'ptr' not in t['f'] and t['f'].get('trait') == 'read::reader::Reader']
                rep.check(rule_over, 'length-not-relocated|' + name, not any(u in RELOCATING for u in uses),
                          'default Reader::%s calls %s' % (name, uses), d.loc(), why='default does not route through a relocatable primitive')


def run_relocate_writer(rep, g, rule='R4'):
    rep.rule(rule, 'RelocateWriter blanket Writer impl overrides exactly write_address/write_offset/write_offset_at/write_eh_pointer, '
             'each records a Relocation and then writes a placeholder through the same-width primitive')
    impl_fns = {f.name: f for f in g.fns.values() if f.kind == 'AssocFn' and f.impl_trait == 'write::writer::Writer'
                and f.path.startswith('write::relocate::')}
    if 'write::writer::Writer' not in g.traits:
        raise MissingAnchor('trait write::writer::Writer is not compiled in this configuration')
    want = {'write_address', 'write_offset', 'write_offset_at', 'write_eh_pointer'}
    base = {'endian', 'len', 'write', 'write_at'}
    got = set(impl_fns)
    rep.floor(rule, 'methods of the RelocateWriter Writer impl', len(got), 6)
    for name in sorted(want):
        if name not in impl_fns:
            rep.bad(rule, 'override|' + name, 'RelocateWriter does not override %s: the default would emit the value without recording a relocation' % name)
            continue
        fn = impl_fns[name]
        names = [t['f'].get('name') for bi, t in fn.calls() if 'ptr' not in t['f']]
        ok = 'push' in names or 'add_reloc' in names or any(n and 'reloc' in n for n in names)
        has_placeholder = any(n in ('write_udata', 'write_udata_at', 'write_address', 'write_eh_pointer', 'write_offset', 'write_offset_at') for n in names)
        rep.check(rule, 'override|' + name, ok and has_placeholder,
                  '%s must record a relocation (calls: %s) and write a placeholder' % (name, sorted(set(n for n in names if n))), fn.loc(),
                  why='records relocation then writes placeholder')
    extra = got - want - base
    for name in sorted(extra):
        rep.bad(rule, 'extra-override|' + name, 'RelocateWriter overrides %s, which is not a relocatable primitive' % name, impl_fns[name].loc())


# ------------------------------------------------------------------------------------------
# R1: values that become section offsets / addresses come from the relocatable primitives

OFFSET_NEWTYPES = {
    'common::DebugAbbrevOffset', 'common::DebugInfoOffset', 'common::DebugLineOffset', 'common::DebugLineStrOffset',
    'common::DebugStrOffset', 'common::DebugMacinfoOffset', 'common::DebugMacroOffset', 'common::LocationListsOffset',
    'common::RawRangeListsOffset', 'common::RangeListsOffset', 'common::DebugAddrBase', 'common::DebugStrOffsetsBase',
    'common::DebugLocListsBase', 'common::DebugRngListsBase', 'common::DebugTypesOffset', 'common::DebugArangesOffset',
}
RELOC_READS = {'read_offset': 'OFF', 'read_sized_offset': 'OFF', 'read_address': 'ADDR'}
RAW_READS = {'read_u8', 'read_u16', 'read_u32', 'read_u64', 'read_uleb128', 'read_uleb128_u32', 'read_uleb128_u16',
             'read_sleb128', 'read_word', 'read_length', 'read_initial_length', 'read_uint', 'read_i8', 'read_i16', 'read_i32', 'read_i64'}
PASS_CALLS = {'map', 'and_then', 'map_err', 'ok_or', 'from', 'into', 'from_u64', 'from_u32', 'from_u16', 'from_u8', 'into_u64',
              'branch', 'ok', 'unwrap_or', 'try_from', 'try_into', 'clone', 'wrapping_add', 'checked_add', 'add', 'checked_sub', 'sub',
              'wrapping_sub', 'wrapping_add_sized', 'add_sized'}


def origins(fn, op, depth=10, seen=None):
    """set of origin labels of an operand: OFF, ADDR, RAW:<method>, PARAM, FIELD, CONST, CALL:<name>"""
    if seen is None:
        seen = set()
    out = set()
    if op[0] == 'k':
        if isinstance(op[2], dict) and 'fn' in op[2]:
            return set()
        return {'CONST'}
    if op[0] not in ('c', 'm') or depth <= 0:
        return {'?'}
    pl = op[1]
    base = pl[0]
    key = (base, len(pl))
    if key in seen:
        return set()
    seen.add(key)
    if 1 <= base <= fn.argc:
        return {'PARAM'}
    ds = fn.defs.get(base, [])
    if not ds:
        return {'?'}
    # projections through Deref of a field are FIELD reads
    for d in ds:
        if d[1] == 'term':
            t = d[2]
            f = t['f']
            if 'ptr' in f:
                out.add('CALL:<fnptr>')
                continue
            name = f.get('name')
            if f.get('trait') == 'read::reader::Reader' and name in RELOC_READS:
                out.add(RELOC_READS[name])
            elif f.get('trait') == 'read::reader::Reader' and name in RAW_READS:
                out.add('RAW:' + name)
            elif name in PASS_CALLS and t['a']:
                for a in t['a']:
                    out |= origins(fn, a, depth - 1, seen)
            else:
                out.add('CALL:%s' % name)
        else:
            rv = d[2]
            k = rv[0]
            if k == 'use':
                o = rv[1]
                if o[0] in ('c', 'm') and len(o[1]) > 1 and (o[1][0] <= fn.argc and o[1][0] >= 1):
                    out.add('PARAM' if all(not (isinstance(p, list) and p[0] == 'f') for p in o[1][1:]) else 'FIELD')
                else:
                    out |= origins(fn, o, depth - 1, seen)
            elif k in ('cast',):
                out |= origins(fn, rv[2], depth - 1, seen)
            elif k == 'bin':
                out |= origins(fn, rv[2], depth - 1, seen) | origins(fn, rv[3], depth - 1, seen)
            elif k == 'un':
                out |= origins(fn, rv[2], depth - 1, seen)
            elif k == 'agg':
                for o in rv[2]:
                    out |= origins(fn, o, depth - 1, seen)
            elif k in ('ref', 'cfd'):
                out |= origins(fn, ['c', rv[1]], depth - 1, seen)
            else:
                out.add('?')
    return out


ADDR_VARIANTS = {
    ('read::unit::AttributeValue', 'Addr'): ('ADDR', [0]),
    ('read::unit::AttributeValue', 'SecOffset'): ('OFF', [0]),
    ('read::op::Operation', 'Address'): ('ADDR', [0]),
    ('read::line::LineInstruction', 'SetAddress'): ('ADDR', [0]),
    ('read::rnglists::RawRngListEntry', 'BaseAddress'): ('ADDR', [0]),
    ('read::rnglists::RawRngListEntry', 'StartEnd'): ('ADDR', [0, 1]),
    ('read::rnglists::RawRngListEntry', 'StartLength'): ('ADDR', [0]),
    ('read::loclists::RawLocListEntry', 'BaseAddress'): ('ADDR', [0]),
    ('read::loclists::RawLocListEntry', 'StartEnd'): ('ADDR', [0, 1]),
    ('read::loclists::RawLocListEntry', 'StartLength'): ('ADDR', [0]),
}


def run_R1(rep, g, rule='R1', scope=None, floor=40):
    rep.rule(rule, 'every section-offset newtype constructed in the read path takes its value from read_offset/read_sized_offset '
             '(or from a parameter/field/another offset), never from a plain integer read; deviations need a reviewed reason')
    n = 0
    from collections import Counter
    kc = Counter()
    for p in sorted(g.fns):
        fn = g.fns[p]
        if scope is not None:
            if not scope(p):
                continue
        elif not (p.startswith('read::') or p.startswith('<read::')):
            continue
        for bi in sorted(fn.reach):
            stmts, t = fn.blocks[bi]
            cons = []
            for st in stmts:
                if st[0] == 'a' and st[2][0] == 'agg' and st[2][1][0] == 'adt':
                    adt = g.strs[st[2][1][1]]
                    if adt in OFFSET_NEWTYPES and st[2][2]:
                        cons.append((adt, st[2][2][0], st[3]))
            if t['k'] == 'call' and 'ptr' not in t['f'] and t['f'].get('name') in ('map',) and len(t['a']) == 2:
                fa = t['a'][1]
                if fa[0] == 'k' and isinstance(fa[2], dict) and fa[2].get('fn') in OFFSET_NEWTYPES:
                    cons.append((fa[2]['fn'], t['a'][0], t['line']))
            for st in stmts:
                if st[0] == 'a' and st[2][0] == 'agg' and st[2][1][0] == 'adt':
                    adt = g.strs[st[2][1][1]]
                    var = st[2][1][2]
                    want = ADDR_VARIANTS.get((adt, var))
                    if want is not None:
                        for idx in want[1]:
                            if idx < len(st[2][2]):
                                n += 1
                                og = origins(fn, st[2][2][idx])
                                base = '%s|%s::%s.%d' % (fn.path, adt.split('::')[-1], var, idx)
                                kc[base] += 1
                                key = base if kc[base] == 1 else '%s#%d' % (base, kc[base])
                                raw = sorted(o for o in og if o.startswith('RAW:'))
                                if want[0] in og and not raw:
                                    rep.ok(rule, key, 'origins %s' % sorted(og), fn.loc(st[3]), why='value read with the relocatable primitive')
                                elif raw or ('OFF' in og and want[0] == 'ADDR') or ('ADDR' in og and want[0] == 'OFF'):
                                    rep.bad(rule, key, '%s::%s field %d should come from %s but has origins %s'
                                            % (adt.split('::')[-1], var, idx, want[0], sorted(og)), fn.loc(st[3]))
                                else:
                                    rep.ok(rule, key, 'origins %s (not a direct read)' % sorted(og), fn.loc(st[3]), why='forwarded value', nontrivial=False)
            for adt, op, line in cons:
                n += 1
                og = origins(fn, op)
                base = '%s|%s' % (fn.path, adt.split('::')[-1])
                kc[base] += 1
                key = base if kc[base] == 1 else '%s#%d' % (base, kc[base])
                raw = sorted(o for o in og if o.startswith('RAW:'))
                if raw and 'OFF' not in og:
                    rep.bad(rule, key, '%s is built from %s, a read that a relocating reader does not relocate' % (adt.split('::')[-1], raw), fn.loc(line))
                elif raw:
                    rep.bad(rule, key, '%s mixes relocatable and plain reads: %s' % (adt.split('::')[-1], sorted(og)), fn.loc(line))
                else:
                    rep.ok(rule, key, 'origins %s' % sorted(og), fn.loc(line), why='no plain integer read flows into the offset')
    rep.floor(rule, 'offset newtype constructions in read::*', n, floor)
    return n
