"""PROV-lite: backward interval evaluation of MIR operands with dominating-guard refinement.
Pure abstract interpretation over the MIR facts: no execution, no solver.

A value is an interval (lo, hi) of mathematical integers or None (= unknown / not an integer).
Anything the evaluator does not understand becomes the full range of its type, so a discharge
obtained from it is sound; weakness only produces more sites for review.
"""
from .facts import INT_TYPES

U64 = (0, 2**64 - 1)


def type_range(t):
    if t in INT_TYPES:
        return INT_TYPES[t]
    if t == 'bool':
        return (0, 1)
    if t.endswith('::Offset') or t in ('Offset', 'T', 'R::Offset'):
        return INT_TYPES['usize']     # assumption: R::Offset modelled as usize
    return None


def bits_of(t):
    r = type_range(t)
    if r is None:
        return None
    n = r[1] - r[0] + 1
    return n.bit_length() - 1


def clamp(v, t):
    """fit a mathematical interval into type t (wrapping/unknown -> full range)"""
    r = type_range(t)
    if v is None:
        return r
    if r is None:
        return v
    if v[0] < r[0] or v[1] > r[1]:
        return r
    return v


def join(a, b):
    if a is None or b is None:
        return None
    return (min(a[0], b[0]), max(a[1], b[1]))


def meet(a, b):
    if a is None:
        return b
    if b is None:
        return a
    lo, hi = max(a[0], b[0]), min(a[1], b[1])
    if lo > hi:
        return (lo, lo)   # infeasible; keep something well-formed
    return (lo, hi)


READER_RANGES = {
    'read_u8': 'u8', 'read_i8': 'i8', 'read_u16': 'u16', 'read_i16': 'i16', 'read_u32': 'u32',
    'read_i32': 'i32', 'read_u64': 'u64', 'read_i64': 'i64', 'read_uleb128': 'u64', 'read_sleb128': 'i64',
    'read_uleb128_u16': 'u16', 'read_uleb128_u32': 'u32', 'read_address': 'u64', 'read_word': 'usize',
    'read_length': 'usize', 'read_offset': 'usize', 'read_sized_offset': 'usize',
}
WIDEN_FNS = {'from_u8': 'u8', 'from_u16': 'u16', 'from_u32': 'u32'}
CMP_OPS = {'Lt', 'Le', 'Gt', 'Ge', 'Eq', 'Ne'}
NEG = {'Lt': 'Ge', 'Le': 'Gt', 'Gt': 'Le', 'Ge': 'Lt', 'Eq': 'Ne', 'Ne': 'Eq'}
SWAP = {'Lt': 'Gt', 'Le': 'Ge', 'Gt': 'Lt', 'Ge': 'Le', 'Eq': 'Eq', 'Ne': 'Ne'}


class Eval:
    def __init__(self, fn, summaries=None):
        self.fn = fn
        self.g = fn.facts
        self.memo = {}
        self.inprog = set()
        self.summaries = summaries      # Summaries object for in-crate callee return ranges
        self._facts = {}

    # ------------------------------------------------------------------ operands
    def val(self, op, at=None, depth=12):
        """interval of operand `op`; `at` = block where it is used (enables guard refinement)."""
        if op[0] == 'k':
            c = op[2]
            v = c.get('v') if isinstance(c, dict) else None
            if isinstance(v, bool):
                v = int(v)
            if isinstance(v, int):
                return (v, v)
            return type_range(self.g.strs[op[1]])
        if op[0] in ('c', 'm'):
            r = self.place(op[1], depth)
            if at is not None:
                r = self.refine(op, r, at)
                if len(op[1]) == 1 and not getattr(self, 'no_forward', False):
                    fr = self.forward_at(at, op[1][0])
                    if fr is not None:
                        r = meet(r, fr) if r is not None else fr
            return r
        return None

    def forward_at(self, bb, local):
        """flow-sensitive range of a whole local at the end of block bb (forward.py)"""
        fw = getattr(self, '_fwd', None)
        if fw is None:
            from .forward import Forward
            try:
                fw = Forward(self.fn, self.summaries)
            except Exception:
                fw = False
            self._fwd = fw
        if not fw:
            return None
        return fw.at_exit(bb, local)

    def place_ty(self, pl):
        fn = self.fn
        if len(pl) == 1:
            return fn.ty(pl[0])
        return None

    def place(self, pl, depth=12):
        fn = self.fn
        key = ('p', str(pl))
        if key in self.memo:
            return self.memo[key]
        if key in self.inprog or depth <= 0:
            return self._ty_range_of_place(pl)
        self.inprog.add(key)
        try:
            r = self._place(pl, depth)
        finally:
            self.inprog.discard(key)
        self.memo[key] = r
        return r

    def _ty_range_of_place(self, pl):
        if len(pl) == 1:
            return type_range(self.fn.ty(pl[0]))
        return None

    def _place(self, pl, depth):
        fn = self.fn
        base = pl[0]
        if len(pl) == 1:
            tr = type_range(fn.ty(base))
            if 1 <= base <= fn.argc:
                if self.summaries is not None:
                    pr = self.summaries.param_range(fn, base)
                    if pr is not None:
                        return meet(tr, pr)
                return tr
            ds = fn.defs.get(base, [])
            if not ds:
                return tr
            out = None
            first = True
            for d in ds:
                if not d[3]:
                    return tr   # partial assignment
                v = self._def(d, depth - 1)
                if v is None:
                    return tr
                out = v if first else join(out, v)
                first = False
            return meet(tr, out) if tr else out
        # `*&CONST` (promoted reference to an integer constant)
        if len(pl) == 2 and pl[1] == '*':
            sd = fn.single_def(base)
            if sd is not None and sd[1] != 'term' and sd[2][0] == 'use' and sd[2][1][0] == 'k':
                v = sd[2][1][2].get('v') if isinstance(sd[2][1][2], dict) else None
                if isinstance(v, int) and not isinstance(v, bool):
                    return (v, v)
        # projections
        # (x.0) of a checked-arith tuple, or payload of Try::branch / Option
        if len(pl) == 2 and isinstance(pl[1], list) and pl[1][0] == 'f':
            sd = fn.single_def(base)
            if sd is not None and sd[1] != 'term':
                rv = sd[2]
                if rv[0] == 'bin' and rv[1].endswith('WithOverflow') and pl[1][1] == 0:
                    return self._bin(rv[1].replace('WithOverflow', ''), rv[2], rv[3], self.g.strs[rv[4]], depth - 1, sd[0])
                if rv[0] == 'agg' and pl[1][1] < len(rv[2]):
                    return self.val(rv[2][pl[1][1]], None, depth - 1)
                if rv[0] == 'use' and rv[1][0] in ('c', 'm'):
                    return self.place(rv[1][1] + [pl[1]], depth - 1)
                if rv[0] == 'use' and rv[1][0] == 'k' and pl[1][1] == 0:
                    v = rv[1][2].get('v') if isinstance(rv[1][2], dict) else None
                    if isinstance(v, int) and not isinstance(v, bool):
                        return (v, v)      # `.0` of a newtype constant such as DW_OP_reg0
        if len(pl) == 3 and isinstance(pl[1], list) and pl[1][0] == 'd' and pl[2][0] == 'f' and pl[2][1] == 0:
            # (x as Variant).0
            variant = pl[1][1]
            sd = fn.single_def(base)
            if sd is not None:
                return self._payload(sd, variant, depth - 1)
        # field of something else: type of the field is not in the facts for the place; unknown
        return self._field_ty_range(pl)

    def _field_ty_range(self, pl):
        # find ADT field type
        last = pl[-1]
        if isinstance(last, list) and last[0] == 'f' and last[3] is not None:
            adt = self.g.adts.get(self.g.strs[last[3]])
            if adt is not None:
                # variant: previous projection may be a downcast
                vidx = 0
                if len(pl) >= 3 and isinstance(pl[-2], list) and pl[-2][0] == 'd':
                    vidx = pl[-2][2]
                try:
                    fty = adt['variants'][vidx]['fields'][last[1]]['ty']
                except (IndexError, KeyError):
                    return None
                r = type_range(fty)
                if r is not None and self.summaries is not None:
                    fr = self.summaries.field_range(adt['path'], last[2])
                    if fr is not None:
                        return meet(r, fr)
                return r
        return None

    def _payload(self, d, variant, depth):
        """value of the payload of an enum-typed local defined by d, for the given variant."""
        fn = self.fn
        if d[1] == 'term':
            t = d[2]
            f = t['f']
            name = f.get('name')
            path = f.get('path', '')
            if path == 'core::ops::Try::branch' and variant == 'Continue':
                a = t['a'][0]
                return self._ok_payload(a, depth)
            return self._call_payload(t, variant, depth)
        rv = d[2]
        if rv[0] == 'use' and rv[1][0] in ('c', 'm') and len(rv[1][1]) == 1:
            sd = fn.single_def(rv[1][1][0])
            if sd is not None:
                return self._payload(sd, variant, depth - 1)
        if rv[0] == 'agg' and rv[1][0] == 'adt' and rv[1][2] == variant and rv[2]:
            return self.val(rv[2][0], None, depth - 1)
        return None

    def _ok_payload(self, op, depth):
        """payload of the Ok/Some value held by operand `op`"""
        fn = self.fn
        if op[0] not in ('c', 'm') or len(op[1]) != 1 or depth <= 0:
            return None
        sd = fn.single_def(op[1][0])
        if sd is None:
            return None
        if sd[1] == 'term':
            return self._call_payload(sd[2], 'Ok', depth - 1)
        rv = sd[2]
        if rv[0] == 'use':
            return self._ok_payload(rv[1], depth - 1)
        if rv[0] == 'agg' and rv[1][0] == 'adt' and rv[1][2] in ('Ok', 'Some') and rv[2]:
            return self.val(rv[2][0], None, depth - 1)
        return None

    def _call_payload(self, t, variant, depth):
        f = t['f']
        name = f.get('name')
        path = f.get('path', '')
        if f.get('trait') == 'read::reader::Reader' and name in READER_RANGES:
            return type_range(READER_RANGES[name])
        if f.get('trait') == 'read::reader::Reader' and name == 'read_address_size':
            return (1, 8)
        if path.startswith('core::result::Result::<T, E>::map') and name == 'map' and len(t['a']) == 2:
            inner = self._ok_payload(t['a'][0], depth - 1)
            fa = t['a'][1]
            if fa[0] == 'k' and 'fn' in fa[2]:
                fnm = fa[2]['fn'].split('::')[-1]
                if fnm in WIDEN_FNS:
                    return meet(inner, type_range(WIDEN_FNS[fnm]))
                if fnm in ('from', 'into', 'into_u64'):
                    return inner
            return None
        if name in ('and_then',) and len(t['a']) == 2:
            fa = t['a'][1]
            if fa[0] == 'k' and 'fn' in fa[2] and fa[2]['fn'].split('::')[-1] in ('from_u64',):
                return self._ok_payload(t['a'][0], depth - 1)
            return None
        if name in ('try_from', 'try_into') and variant in ('Ok',):
            return None
        if name in ('checked_add', 'checked_sub', 'checked_mul', 'checked_div', 'checked_shl'):
            return None
        if name in ('ok_or', 'ok_or_else', 'ok', 'map_err') and t['a']:
            return self._ok_payload(t['a'][0], depth - 1)
        if self.summaries is not None:
            for tgt in self.g.callee_targets(f):
                r = self.summaries.ret_payload(tgt, variant)
                return r
        return None

    # ------------------------------------------------------------------ definitions
    def _def(self, d, depth):
        if d[1] == 'term':
            return self._call(d[2], depth, d[0])
        return self.rv(d[2], depth, d[0])

    def rv(self, rv, depth=12, at=None):
        k = rv[0]
        g = self.g
        if k == 'use':
            return self.val(rv[1], at, depth)
        if k == 'cast':
            src = self.val(rv[2], at, depth)
            sty, tty = g.strs[rv[3]], g.strs[rv[4]]
            tr = type_range(tty)
            if src is None:
                src = type_range(sty)
            if src is None or tr is None:
                return tr
            if src[0] >= tr[0] and src[1] <= tr[1]:
                return src
            return tr
        if k == 'bin':
            return self._bin(rv[1], rv[2], rv[3], g.strs[rv[4]], depth, at)
        if k == 'un':
            a = self.val(rv[2], at, depth)
            t = g.strs[rv[3]]
            if rv[1] == 'Neg' and a is not None:
                return clamp((-a[1], -a[0]), t)
            if rv[1] == 'Not' and t == 'bool' and a is not None:
                return (1 - a[1], 1 - a[0])
            return type_range(t)
        if k == 'cfd':
            return self.place(rv[1], depth)
        return None

    def _bin(self, op, a_op, b_op, ty, depth, at=None):
        a = self.val(a_op, at, depth)
        b = self.val(b_op, at, depth)
        op = op.replace('Unchecked', '')
        if op in CMP_OPS:
            return (0, 1)
        if a is None:
            a = type_range(ty)
        if b is None:
            b = type_range(ty)
        if a is None or b is None:
            return type_range(ty)
        r = math_bin(op, a, b, ty)
        return clamp(r, ty)

    def _call(self, t, depth, at=None):
        f = t['f']
        name = f.get('name')
        path = f.get('path', '')
        args = t['a']
        dty = self.g.strs[t['dty']]
        tr = type_range(dty)
        if tr is None and not dty.startswith('('):
            return None
        if f.get('trait') == 'read::reader::Reader' and name == 'len':
            return (0, 2**63 - 1)
        if path in ('core::convert::From::from', 'core::convert::Into::into') and args:
            a = self.val(args[0], at, depth)
            return meet(tr, a) if a is not None else tr
        if name in WIDEN_FNS and f.get('trait') == 'read::reader::ReaderOffset' and args:
            a = self.val(args[0], at, depth)
            return meet(meet(tr, type_range(WIDEN_FNS[name])), a)
        if name == 'into_u64' and args:
            a = self.val(args[0], at, depth)
            return meet(tr, a)
        if name in ('len',) and ('slice' in path or 'Vec' in path or 'vec' in path or 'str' in path):
            return (0, 2**63 - 1)
        if name in ('leading_zeros', 'trailing_zeros', 'count_ones', 'count_zeros') and args:
            aty = self.fn.ty(args[0][1][0]) if args[0][0] in ('c', 'm') and len(args[0][1]) == 1 else None
            b = bits_of(aty) if aty else None
            return (0, b if b else 128)
        if name in ('min', 'max') and len(args) == 2 and ('cmp' in path or 'Ord' in path):
            a = self.val(args[0], at, depth)
            b = self.val(args[1], at, depth)
            if a is not None and b is not None:
                if name == 'min':
                    return (min(a[0], b[0]), min(a[1], b[1]))
                return (max(a[0], b[0]), max(a[1], b[1]))
            return tr
        if name in ('wrapping_add', 'wrapping_sub', 'wrapping_mul', 'wrapping_neg', 'wrapping_shl', 'wrapping_shr'):
            return tr
        if name in ('saturating_sub',) and len(args) == 2:
            a = self.val(args[0], at, depth)
            if a is not None and tr is not None:
                return (tr[0], a[1])
            return tr
        if name == 'size_of':
            return (0, 4096)
        if self.summaries is not None:
            tg = self.g.callee_targets(f)
            if tg:
                out = None
                for i, x in enumerate(tg):
                    r = self.summaries.ret_range(x)
                    if r is None:
                        return tr
                    out = r if i == 0 else join(out, r)
                return meet(tr, out)
        return tr

    # ------------------------------------------------------------------ guards
    def cond_facts(self, bb):
        """Conditions known to hold on entry to `bb` from dominating branch edges.
        Each fact: (op, lhs_operand, rhs_operand, guard_block)."""
        if bb in self._facts:
            return self._facts[bb]
        fn = self.fn
        out = []
        doms = fn.dom.get(bb, set())
        for d in doms:
            t = fn.term(d)
            if t['k'] != 'switch':
                continue
            listed = [v for v, _ in t['v']]
            # group the switch's edges by target block
            by_tgt = {}
            for v, s_ in t['v']:
                by_tgt.setdefault(s_, []).append(v)
            by_tgt.setdefault(t['o'], []).append(None)
            for tgt, vals in by_tgt.items():
                if tgt == d:
                    continue
                if not (fn.dominates(tgt, bb) and fn.pred[tgt] == [d]):
                    continue
                # every path to bb enters tgt from d, i.e. the discriminant took one of `vals`
                if len(vals) == 1:
                    for fact in self._edge_facts(d, t, vals[0], listed):
                        out.append(fact + (d,))
                elif None not in vals:
                    dop = t['d']
                    if dop[0] in ('c', 'm') and type_range(self.g.strs[t['ty']]) is not None:
                        out.append(('Ge', dop, ['k', t['ty'], {'v': min(vals)}], d))
                        out.append(('Le', dop, ['k', t['ty'], {'v': max(vals)}], d))
        self._facts[bb] = out
        return out

    def _edge_facts(self, d, t, val, listed):
        fn = self.fn
        dop = t['d']
        facts = []
        if dop[0] not in ('c', 'm'):
            return facts
        dty = self.g.strs[t['ty']]
        if dty == 'bool':
            truth = None
            if val is not None:
                truth = (val != 0)
            elif listed == [0]:
                truth = True
            elif listed == [1]:
                truth = False
            if truth is None:
                return facts
            facts.extend(self._bool_facts(dop, truth, 6))
        elif type_range(dty) is not None:
            # switch on an integer
            if val is not None:
                facts.append(('Eq', dop, ['k', t['ty'], {'v': val}]))
            else:
                for v in listed:
                    facts.append(('Ne', dop, ['k', t['ty'], {'v': v}]))
        return facts

    def _bool_facts(self, op, truth, depth):
        """facts implied by boolean operand `op` having value `truth`"""
        fn = self.fn
        if depth <= 0 or op[0] not in ('c', 'm') or len(op[1]) != 1:
            return []
        sd = fn.single_def(op[1][0])
        if sd is None:
            return []
        if sd[1] == 'term':
            t = sd[2]
            f = t['f']
            name = f.get('name')
            if name in ('lt', 'le', 'gt', 'ge', 'eq', 'ne') and len(t['a']) == 2 and ('cmp::Partial' in f.get('path', '')):
                opn = name.capitalize()
                a, b = self._deref_arg(t['a'][0]), self._deref_arg(t['a'][1])
                if a is None or b is None:
                    return []
                return [((opn if truth else NEG[opn]), a, b)]
            if name == 'is_empty' and t['a']:
                return []
            return []
        rv = sd[2]
        if rv[0] == 'bin' and rv[1] in CMP_OPS:
            opn = rv[1] if truth else NEG[rv[1]]
            return [(opn, rv[2], rv[3])]
        if rv[0] == 'un' and rv[1] == 'Not':
            return self._bool_facts(rv[2], not truth, depth - 1)
        if rv[0] == 'use':
            return self._bool_facts(rv[1], truth, depth - 1)
        return []

    def _deref_arg(self, op):
        """`&x` passed to PartialOrd::lt etc -> operand for x"""
        fn = self.fn
        if op[0] not in ('c', 'm') or len(op[1]) != 1:
            return None
        sd = fn.single_def(op[1][0])
        if sd is None or sd[1] == 'term':
            return None
        rv = sd[2]
        if rv[0] == 'ref':
            return ['c', rv[1]]
        if rv[0] == 'use':
            return self._deref_arg(rv[1])
        return None

    def same(self, a, b):
        """syntactic equality of two operands after copy propagation (source-like text)"""
        if a[0] == 'k' or b[0] == 'k':
            if a[0] == 'k' and b[0] == 'k':
                return a[2].get('v') is not None and a[2].get('v') == b[2].get('v')
            return False
        return self.canon(a) == self.canon(b)

    def canon(self, op, depth=8):
        """canonical text of an operand: copies followed, `Newtype(x).0` reduced to x"""
        fn = self.fn
        cur = op
        for _ in range(depth):
            if cur[0] not in ('c', 'm'):
                break
            pl = cur[1]
            base = pl[0]
            sd = fn.single_def(base)
            if fn.lname(base) is not None and len(pl) == 1:
                # a `let x = <place>` / pattern binding is just a name for that place
                if not (sd is not None and sd[1] != 'term' and sd[2][0] == 'use' and sd[2][1][0] in ('c', 'm')
                        and len(sd[2][1][1]) > 1):
                    break
            if sd is None or sd[1] == 'term':
                break
            rv = sd[2]
            if len(pl) == 1 and rv[0] == 'use':
                cur = rv[1]
                continue
            if len(pl) == 2 and pl[1] == '*' and rv[0] == 'use' and rv[1][0] == 'k' and isinstance(rv[1][2], dict) \
                    and isinstance(rv[1][2].get('v'), int):
                cur = rv[1]         # `*&CONST` (a promoted reference to an integer constant)
                continue
            if len(pl) >= 2 and isinstance(pl[1], list) and pl[1][0] == 'f' and rv[0] == 'agg' \
                    and rv[1][0] in ('adt', 'tuple') and pl[1][1] < len(rv[2]):
                inner = rv[2][pl[1][1]]
                if len(pl) == 2:
                    cur = inner
                    continue
                if inner[0] in ('c', 'm'):
                    cur = [inner[0], inner[1] + pl[2:]]
                    continue
                break
            if len(pl) >= 2 and rv[0] == 'use' and rv[1][0] in ('c', 'm') and fn.lname(base) is None:
                cur = [cur[0], rv[1][1] + pl[1:]]
                continue
            break
        if cur[0] == 'k':
            v = cur[2].get('v') if isinstance(cur[2], dict) else None
            return 'const:%s' % v
        return self.fn.fmt_op(cur, 8)

    def stable(self, op, guard_bb, site_bb):
        """the operand's source expression is not written between guard and site"""
        fn = self.fn
        if op[0] == 'k':
            return True
        root = self._root_place(op, 8)
        if root is None:
            return False
        base = root[0]
        # blocks on some path from the guard edge to the site that does not pass the guard again
        # (the guard dominates the site, so only the last evaluation of the guard matters)
        after = set()
        for s_ in fn.succ[guard_bb]:
            after |= fn.reachable_from(s_, removed={guard_bb})
        between = after & _can_reach(fn, site_bb, removed={guard_bb})
        for b in between:
            stmts, term = fn.blocks[b]
            for st in stmts:
                if st[0] == 'a' and st[1][0] == base and _overlaps(st[1], root):
                    # assignment to the same place (the temp copies have a different base)
                    return False
            if term['k'] == 'call':
                if term['d'][0] == base and _overlaps(term['d'], root):
                    return False
                # &mut borrows of the root passed to a call
                for a in term['a']:
                    if a[0] in ('c', 'm') and len(a[1]) == 1:
                        sd = fn.single_def(a[1][0])
                        if sd and sd[1] != 'term' and sd[2][0] == 'ref' and sd[2][2] == 'mut':
                            rp = self._root_place(['c', sd[2][1]], 4)
                            if rp is not None and rp[0] == base and _overlaps(rp, root):
                                return False
        return True

    def _root_place(self, op, depth):
        """follow copies of temporaries back to the named place being read"""
        fn = self.fn
        if op[0] not in ('c', 'm'):
            return None
        pl = op[1]
        base = pl[0]
        if fn.lname(base) is not None or base <= fn.argc or depth <= 0:
            return pl
        sd = fn.single_def(base)
        if sd is None or sd[1] == 'term':
            return pl
        rv = sd[2]
        if rv[0] in ('use',) and rv[1][0] in ('c', 'm'):
            inner = self._root_place(rv[1], depth - 1)
            if inner is None:
                return None
            return inner + pl[1:]
        if rv[0] in ('cfd',):
            inner = self._root_place(['c', rv[1]], depth - 1)
            return None if inner is None else inner + pl[1:]
        if rv[0] == 'ref':
            inner = self._root_place(['c', rv[1]], depth - 1)
            if inner is None:
                return None
            rest = pl[1:]
            if rest and rest[0] == '*':
                return inner + rest[1:]
            return inner
        return pl

    def refine(self, op, r, at):
        """intersect r with constant bounds implied by dominating guards on the same expression"""
        for (opn, a, b, gb) in self.cond_facts(at):
            for (x, y, o) in ((a, b, opn), (b, a, SWAP[opn])):
                if x[0] == 'k':
                    continue
                if not self.same(x, op):
                    continue
                if not self.stable(op, gb, at):
                    continue
                yv = self.val(y, None, 6) if y[0] != 'k' else ((y[2].get('v'), y[2].get('v')) if isinstance(y[2].get('v'), int) else None)
                if yv is None:
                    continue
                tr = r
                if tr is None:
                    continue
                lo, hi = tr
                if o == 'Lt':
                    hi = min(hi, yv[1] - 1)
                elif o == 'Le':
                    hi = min(hi, yv[1])
                elif o == 'Gt':
                    lo = max(lo, yv[0] + 1)
                elif o == 'Ge':
                    lo = max(lo, yv[0])
                elif o == 'Eq':
                    lo, hi = max(lo, yv[0]), min(hi, yv[1])
                elif o == 'Ne' and yv[0] == yv[1]:
                    if lo == yv[0]:
                        lo += 1
                    if hi == yv[0]:
                        hi -= 1
                if lo <= hi:
                    r = (lo, hi)
        return r

    def known_nonzero(self, op, at):
        """a dominating guard established op != 0 (or op > 0 / op < 0 / op == non-zero constant)"""
        for (opn, x, y, gb) in self.cond_facts(at):
            for (p, q, o) in ((x, y, opn), (y, x, SWAP[opn])):
                if p[0] == 'k' or not self.same(p, op):
                    continue
                if q[0] != 'k' or not isinstance(q[2].get('v'), int):
                    continue
                c = q[2]['v']
                if not self.stable(op, gb, at):
                    continue
                if (o == 'Ne' and c == 0) or (o == 'Gt' and c >= 0) or (o == 'Ge' and c >= 1) or \
                        (o == 'Lt' and c <= 0) or (o == 'Le' and c <= -1) or (o == 'Eq' and c != 0):
                    return True
        return False

    def known_rel(self, a, b, at):
        """relations a ? b known at block `at`: returns set of ops among Lt/Le/Gt/Ge/Eq/Ne"""
        out = set()
        for (opn, x, y, gb) in self.cond_facts(at):
            if self.same(x, a) and self.same(y, b):
                if self.stable(a, gb, at) and self.stable(b, gb, at):
                    out.add(opn)
            elif self.same(x, b) and self.same(y, a):
                if self.stable(a, gb, at) and self.stable(b, gb, at):
                    out.add(SWAP[opn])
        return out


def _single_edge_into(fn, d, tgt):
    """the edge d->tgt is the only way into tgt (so dominance by tgt means the edge was taken)"""
    return fn.pred[tgt] == [d] and fn.succ[d].count(tgt) == 1


def _can_reach(fn, target, removed=()):
    seen = {target}
    st = [target]
    while st:
        x = st.pop()
        for p in fn.pred[x]:
            if p not in seen and p not in removed:
                seen.add(p)
                st.append(p)
    return seen


def _overlaps(p, q):
    """place p (written) overlaps place q (read): one is a prefix of the other"""
    n = min(len(p), len(q))
    return p[:n] == q[:n]


def math_bin(op, a, b, ty):
    lo = hi = None
    if op == 'Add':
        return (a[0] + b[0], a[1] + b[1])
    if op == 'Sub':
        return (a[0] - b[1], a[1] - b[0])
    if op == 'Mul':
        c = [a[0] * b[0], a[0] * b[1], a[1] * b[0], a[1] * b[1]]
        return (min(c), max(c))
    if op == 'Div':
        if b[0] > 0 and a[0] >= 0:
            return (a[0] // b[1], a[1] // b[0])
        return None
    if op == 'Rem':
        if b[0] > 0 and a[0] >= 0:
            return (0, min(a[1], b[1] - 1))
        return None
    if op == 'BitAnd':
        if a[0] >= 0 and b[0] >= 0:
            return (0, min(a[1], b[1]))
        if b[0] >= 0:
            return (0, b[1])
        if a[0] >= 0:
            return (0, a[1])
        return None
    if op in ('BitOr', 'BitXor'):
        if a[0] >= 0 and b[0] >= 0:
            m = max(a[1], b[1])
            return (0, (1 << m.bit_length()) - 1)
        return None
    if op == 'Shr':
        if a[0] >= 0 and b[0] >= 0:
            return (a[0] >> b[1] if b[1] < 200 else 0, a[1] >> b[0] if b[0] < 200 else 0)
        return None
    if op == 'Shl':
        if a[0] >= 0 and b[0] >= 0 and b[1] < 130:
            return (a[0] << b[0], a[1] << b[1])
        return None
    return None
