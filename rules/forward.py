"""Forward abstract interpretation of the integer locals of one MIR body.

Domain per whole integer/bool local:  (lo, hi, S)  with S a set of at most 16 possible values or None.
Flow-sensitive (one environment per block entry), edge-sensitive (branch conditions refine the
environment of each successor, through `x = copy y` aliases), join = interval hull / set union,
widening to the type range after a block's entry changed 14 times.  It complements the backward
evaluator of ranges.py, which cannot bound loop-carried variables (`shift`, counters, accumulators).
No path conditions are collected and no solver is involved."""
from .ranges import Eval, type_range, math_bin, clamp, CMP_OPS, NEG, SWAP

MAXSET = 16
WIDEN_AFTER = 14


def _mk(lo, hi, s=None):
    if s is not None:
        s = frozenset(s)
        if not s:
            return None
        if len(s) > MAXSET:
            s = None
        else:
            lo, hi = min(s), max(s)
    return (lo, hi, s)


def _join(a, b):
    if a is None:
        return b
    if b is None:
        return a
    s = None
    if a[2] is not None and b[2] is not None:
        s = a[2] | b[2]
        if len(s) > MAXSET:
            s = None
    return (min(a[0], b[0]), max(a[1], b[1]), s)


def _vals(v):
    """explicit value set if small"""
    if v[2] is not None:
        return v[2]
    if v[1] - v[0] < MAXSET:
        return frozenset(range(v[0], v[1] + 1))
    return None


class _EnvEval(Eval):
    """backward evaluator that looks whole locals up in a forward environment first"""

    def __init__(self, fn, summaries, env):
        super().__init__(fn, summaries)
        self.env = env
        self.no_forward = True

    def place(self, pl, depth=12):
        if len(pl) == 1 and pl[0] in self.env and self.env[pl[0]] is not None:
            v = self.env[pl[0]]
            return (v[0], v[1])
        key = ('p', str(pl))
        if key in self.inprog or depth <= 0:
            return self._ty_range_of_place(pl)
        self.inprog.add(key)
        try:
            return self._place(pl, depth)
        finally:
            self.inprog.discard(key)


class Forward:
    def __init__(self, fn, summaries=None):
        self.fn = fn
        self.g = fn.facts
        self.summaries = summaries
        self.entry = {}
        self._exit = {}
        self.int_locals = {i for i in range(len(fn.locals)) if type_range(fn.ty(i)) is not None}
        self.ok = True
        self._ctl = None
        try:
            self._solve()
        except RecursionError:
            self.ok = False

    # ------------------------------------------------------------------ transfer
    def _eval_rv(self, rv, env, bb):
        ev = _EnvEval(self.fn, self.summaries, env)
        k = rv[0]
        if k == 'use' and rv[1][0] in ('c', 'm') and len(rv[1][1]) == 1 and rv[1][1][0] in env and env[rv[1][1][0]] is not None:
            return env[rv[1][1][0]]
        if k == 'bin' and not rv[1].endswith('WithOverflow') and rv[1] not in CMP_OPS:
            a = self._opval(rv[2], env, ev)
            b = self._opval(rv[3], env, ev)
            ty = self.g.strs[rv[4]]
            if a is not None and b is not None:
                sa, sb = _vals(a), _vals(b)
                if sa is not None and sb is not None and len(sa) * len(sb) <= 64:
                    out = set()
                    okk = True
                    for x in sa:
                        for y in sb:
                            r = math_bin(rv[1].replace('Unchecked', ''), (x, x), (y, y), ty)
                            if r is None:
                                okk = False
                                break
                            out.add(r[0])
                        if not okk:
                            break
                    tr = type_range(ty)
                    if okk and tr and all(tr[0] <= v <= tr[1] for v in out):
                        return _mk(0, 0, out)
        r = ev.rv(rv, 10, None)
        if r is None:
            return None
        return (r[0], r[1], None)

    def _opval(self, op, env, ev):
        if op[0] == 'k':
            v = op[2].get('v') if isinstance(op[2], dict) else None
            if isinstance(v, bool):
                v = int(v)
            if isinstance(v, int):
                return (v, v, frozenset([v]))
            return None
        if op[0] in ('c', 'm'):
            pl = op[1]
            if len(pl) == 1 and pl[0] in env and env[pl[0]] is not None:
                return env[pl[0]]
            # (x.0) of a checked-arithmetic tuple defined earlier in this block
            r = ev.val(op, None)
            if r is not None:
                return (r[0], r[1], None)
        return None

    def _transfer_block(self, bb, env_in):
        fn = self.fn
        env = dict(env_in)
        alias = {}
        for st in fn.stmts(bb):
            if st[0] != 'a':
                continue
            pl, rv = st[1], st[2]
            x = pl[0]
            if len(pl) != 1:
                # partial store into a local: forget it
                if x in env:
                    env[x] = self._tyval(x)
                continue
            # kill aliases to x
            for a_ in [k for k, v in alias.items() if v == x or k == x]:
                alias.pop(a_, None)
            if rv[0] == 'bin' and rv[1].endswith('WithOverflow'):
                ev = _EnvEval(fn, self.summaries, env)
                a = self._opval(rv[2], env, ev)
                b = self._opval(rv[3], env, ev)
                ty = self.g.strs[rv[4]]
                val = None
                if a is not None and b is not None:
                    sa, sb = _vals(a), _vals(b)
                    op = rv[1].replace('WithOverflow', '')
                    if sa is not None and sb is not None and len(sa) * len(sb) <= 64:
                        out = set()
                        good = True
                        for p_ in sa:
                            for q_ in sb:
                                r = math_bin(op, (p_, p_), (q_, q_), ty)
                                if r is None:
                                    good = False
                                    break
                                out.add(r[0])
                            if not good:
                                break
                        tr = type_range(ty)
                        if good and tr and all(tr[0] <= v <= tr[1] for v in out):
                            val = _mk(0, 0, out)
                    if val is None:
                        r = math_bin(op, (a[0], a[1]), (b[0], b[1]), ty)
                        r = clamp(r, ty)
                        if r is not None:
                            val = (r[0], r[1], None)
                env[-(x + 1)] = val if val is not None else None      # key -(local+1): field 0 of the checked-arith tuple
                continue
            if x not in self.int_locals:
                continue
            if rv[0] == 'use' and rv[1][0] in ('c', 'm') and len(rv[1][1]) == 2 and isinstance(rv[1][1][1], list) \
                    and rv[1][1][1][0] == 'f' and rv[1][1][1][1] == 0 and env.get(-(rv[1][1][0] + 1)) is not None:
                env[x] = env[-(rv[1][1][0] + 1)]
                continue
            v = self._eval_rv(rv, env, bb)
            tr = self._tyval(x)
            if v is None:
                v = tr
            elif tr is not None:
                lo, hi = max(v[0], tr[0]), min(v[1], tr[1])
                if lo > hi:
                    v = tr
                else:
                    s = v[2]
                    if s is not None:
                        s = frozenset(e for e in s if lo <= e <= hi) or None
                    v = (lo, hi, s)
            env[x] = v
            if rv[0] == 'use' and rv[1][0] in ('c', 'm') and len(rv[1][1]) == 1:
                alias[x] = rv[1][1][0]
        return env, alias

    def _tyval(self, x):
        if x < 0:
            return None
        tr = type_range(self.fn.ty(x))
        if tr is None:
            return None
        return (tr[0], tr[1], None)

    # ------------------------------------------------------------------ edges
    def _refine_edge(self, bb, env, alias, succ_vals):
        """env for one outgoing edge of a switch: succ_vals = list of discriminant values (None = otherwise)"""
        fn = self.fn
        t = fn.term(bb)
        d = t['d']
        env = dict(env)
        if d[0] not in ('c', 'm') or len(d[1]) != 1:
            return env
        dl = d[1][0]
        listed = [v for v, _ in t['v']]
        dty = self.g.strs[t['ty']]

        def constrain(x, pred_vals=None, lo=None, hi=None, remove=None):
            targets = [x]
            if x in alias:
                targets.append(alias[x])
            for y in targets:
                cur = env.get(y) or self._tyval(y)
                if cur is None:
                    continue
                clo, chi, cs = cur
                if lo is not None:
                    clo = max(clo, lo)
                if hi is not None:
                    chi = min(chi, hi)
                if cs is None and chi - clo < MAXSET:
                    cs = frozenset(range(clo, chi + 1))
                if cs is None and pred_vals is not None and len(pred_vals) <= MAXSET:
                    cs = frozenset(e for e in pred_vals if clo <= e <= chi)
                if cs is not None:
                    cs = frozenset(e for e in cs if clo <= e <= chi and (remove is None or e not in remove)
                                   and (pred_vals is None or e in pred_vals))
                    if not cs:
                        env[y] = (clo, clo, frozenset([clo])) if clo <= chi else cur
                        env['#infeasible'] = True
                        continue
                    env[y] = (min(cs), max(cs), cs)
                else:
                    if remove:
                        while clo in remove and clo < chi:
                            clo += 1
                        while chi in remove and chi > clo:
                            chi -= 1
                    if clo > chi:
                        env['#infeasible'] = True
                        continue
                    env[y] = (clo, chi, None)
        if dty != 'bool':
            if succ_vals and None not in succ_vals:
                constrain(dl, pred_vals=frozenset(succ_vals))
            elif succ_vals == [None]:
                constrain(dl, remove=frozenset(listed))
            return env
        # bool discriminant: find its definition in this block
        truth = None
        if succ_vals and None not in succ_vals:
            truth = succ_vals[0] != 0
        elif listed == [0]:
            truth = True
        elif listed == [1]:
            truth = False
        if truth is None:
            return env
        self._apply_bool(bb, dl, truth, env, alias, constrain, 4)
        return env

    def _apply_bool(self, bb, bl, truth, env, alias, constrain, depth):
        fn = self.fn
        if depth <= 0:
            return
        rv = None
        for st in fn.stmts(bb):
            if st[0] == 'a' and st[1] == [bl]:
                rv = st[2]
        if rv is None:
            return
        if rv[0] == 'un' and rv[1] == 'Not' and rv[2][0] in ('c', 'm') and len(rv[2][1]) == 1:
            return self._apply_bool(bb, rv[2][1][0], not truth, env, alias, constrain, depth - 1)
        if rv[0] == 'use' and rv[1][0] in ('c', 'm') and len(rv[1][1]) == 1:
            return self._apply_bool(bb, rv[1][1][0], truth, env, alias, constrain, depth - 1)
        if rv[0] != 'bin' or rv[1] not in CMP_OPS:
            return
        op = rv[1] if truth else NEG[rv[1]]
        ev = _EnvEval(fn, self.summaries, env)
        for (x, y, o) in ((rv[2], rv[3], op), (rv[3], rv[2], SWAP[op])):
            if x[0] not in ('c', 'm') or len(x[1]) != 1:
                continue
            xl = x[1][0]
            yv = self._opval(y, env, ev)
            if yv is None:
                continue
            if o == 'Lt':
                constrain(xl, hi=yv[1] - 1)
            elif o == 'Le':
                constrain(xl, hi=yv[1])
            elif o == 'Gt':
                constrain(xl, lo=yv[0] + 1)
            elif o == 'Ge':
                constrain(xl, lo=yv[0])
            elif o == 'Eq':
                ys = _vals(yv)
                if ys is not None:
                    constrain(xl, pred_vals=ys)
                else:
                    constrain(xl, lo=yv[0], hi=yv[1])
            elif o == 'Ne' and yv[0] == yv[1]:
                constrain(xl, remove=frozenset([yv[0]]))

    # ------------------------------------------------------------------ fixpoint
    @staticmethod
    def _leq(a, b):
        """abstract value a is contained in b"""
        if b is None:
            return True
        if a is None:
            return False
        if a[0] < b[0] or a[1] > b[1]:
            return False
        if b[2] is not None:
            if a[2] is None:
                return (a[1] - a[0] < MAXSET) and all(v in b[2] for v in range(a[0], a[1] + 1))
            return a[2] <= b[2]
        return True

    def _subsumed(self, e, e2):
        """environment e is contained in e2 (every local of e2 covers e's value)"""
        for k, v2 in e2.items():
            if k not in e:
                if v2 is not None and v2 != self._tyval(k):
                    return False
                continue
            if not self._leq(e[k], v2):
                return False
        return True

    def _join_env(self, a, b):
        out = {}
        for k in set(a) | set(b):
            if k not in a or k not in b:
                out[k] = self._tyval(k)
            else:
                out[k] = _join(a[k], b[k])
        return out

    def _solve(self):
        """Disjunctive fixpoint: up to MAXENVS environments per block entry (a cheap form of trace
        partitioning: it keeps `shift == 63 => byte in {0,1}`-style correlations); beyond that the
        block falls back to a single joined environment with widening."""
        fn = self.fn
        MAXENVS = 12
        init = {}
        for i in range(1, fn.argc + 1):
            if i in self.int_locals:
                init[i] = self._tyval(i)
        self.entries = {0: [init]}
        merged = set()
        changes = {}
        adds = {}
        work = [0]
        steps = 0
        exit_acc = {}
        while work:
            bb = work.pop(0)
            steps += 1
            if steps > 8000:
                self.ok = False
                break
            envs = self.entries.get(bb) or []
            exit_acc[bb] = None
            outs = []
            for env_in in envs:
                env, alias = self._transfer_block(bb, env_in)
                exit_acc[bb] = dict(env) if exit_acc[bb] is None else self._join_env(exit_acc[bb], env)
                t = fn.term(bb)
                if t['k'] == 'switch':
                    by = {}
                    for v, tgt in t['v']:
                        by.setdefault(tgt, []).append(v)
                    by.setdefault(t['o'], []).append(None)
                    for tgt, vals in by.items():
                        e2 = self._refine_edge(bb, env, alias, vals)
                        if e2.pop('#infeasible', False):
                            continue
                        outs.append((tgt, e2))
                elif t['k'] == 'call':
                    e2 = dict(env)
                    d = t['d']
                    if len(d) == 1 and d[0] in self.int_locals:
                        ev = _EnvEval(fn, self.summaries, env)
                        r = ev._call(t, 8, None)
                        tv = self._tyval(d[0])
                        e2[d[0]] = (r[0], r[1], None) if r is not None else tv
                    elif len(d) >= 1 and d[0] in e2:
                        e2[d[0]] = self._tyval(d[0])
                    for a in t['a']:
                        if a[0] in ('c', 'm') and len(a[1]) == 1:
                            sd = fn.single_def(a[1][0])
                            if sd and sd[1] != 'term' and sd[2][0] == 'ref' and sd[2][2] == 'mut' and len(sd[2][1]) == 1 and sd[2][1][0] in e2:
                                e2[sd[2][1][0]] = self._tyval(sd[2][1][0])
                    if t.get('t') is not None:
                        outs.append((t['t'], e2))
                else:
                    for s_ in fn.term_targets(t):
                        outs.append((s_, env))
            for tgt, e2 in outs:
                cur = self.entries.setdefault(tgt, [])
                if any(self._subsumed(e2, c) for c in cur):
                    continue
                # environments that agree on the control variables are joined; others stay apart
                k2 = self._pkey(e2)
                same = [c for c in cur if self._pkey(c) == k2]
                if same and tgt not in merged:
                    j = self._join_env(same[0], e2)
                    n = changes.get((tgt, k2), 0) + 1
                    changes[(tgt, k2)] = n
                    if n > WIDEN_AFTER:
                        for kk in j:
                            if same[0].get(kk) != j[kk]:
                                j[kk] = self._tyval(kk)
                    cur[:] = [c for c in cur if c is not same[0]] + [j]
                    if tgt not in work:
                        work.append(tgt)
                    continue
                if tgt in merged:
                    new = self._join_env(cur[0], e2)
                    n = changes.get(tgt, 0) + 1
                    changes[tgt] = n
                    if n > WIDEN_AFTER:
                        for k in new:
                            if cur[0].get(k) != new[k]:
                                new[k] = self._tyval(k)
                    self.entries[tgt] = [new]
                else:
                    cur[:] = [c for c in cur if not self._subsumed(c, e2)]
                    cur.append(dict(e2))
                    adds[tgt] = adds.get(tgt, 0) + 1
                    if len(cur) > MAXENVS or adds[tgt] > 60:
                        m = cur[0]
                        for c in cur[1:]:
                            m = self._join_env(m, c)
                        self.entries[tgt] = [m]
                        merged.add(tgt)
                if tgt not in work:
                    work.append(tgt)
        self._exit = {b: e for b, e in exit_acc.items() if e is not None}
        self.entry = {b: (self._join_all(es) if es else {}) for b, es in self.entries.items()}

    def _control_locals(self):
        """named integer locals that are compared with a constant (directly or through a copy) or switched on"""
        fn = self.fn
        out = set()

        def src(op):
            if op[0] in ('c', 'm') and len(op[1]) == 1:
                l = op[1][0]
                if fn.lname(l) is not None and l in self.int_locals:
                    return l
                sd = fn.single_def(l)
                if sd and sd[1] != 'term' and sd[2][0] == 'use' and sd[2][1][0] in ('c', 'm') and len(sd[2][1][1]) == 1:
                    l2 = sd[2][1][1][0]
                    if fn.lname(l2) is not None and l2 in self.int_locals:
                        return l2
            return None
        for bi in fn.reach:
            for st in fn.stmts(bi):
                if st[0] == 'a' and st[2][0] == 'bin' and st[2][1] in CMP_OPS:
                    a, b = st[2][2], st[2][3]
                    if b[0] == 'k' and src(a) is not None:
                        out.add(src(a))
                    if a[0] == 'k' and src(b) is not None:
                        out.add(src(b))
            t = fn.term(bi)
            if t['k'] == 'switch' and self.g.strs[t['ty']] != 'bool' and src(t['d']) is not None:
                out.add(src(t['d']))
        return sorted(out)[:4]

    def _pkey(self, env):
        if self._ctl is None:
            self._ctl = self._control_locals()
        key = []
        for l in self._ctl:
            v = env.get(l)
            if v is not None and v[2] is not None and len(v[2]) == 1:
                key.append((l, next(iter(v[2]))))
            elif v is not None and v[0] == v[1]:
                key.append((l, v[0]))
            else:
                key.append((l, '*'))
        return tuple(key)

    def _join_all(self, es):
        m = es[0]
        for c in es[1:]:
            m = self._join_env(m, c)
        return m

    def at_exit(self, bb, local):
        """(lo, hi) of a whole integer local after the statements of block bb (None = unknown)"""
        if not self.ok:
            return None
        env = self._exit.get(bb)
        if env is None or local not in env or env[local] is None:
            return None
        return (env[local][0], env[local][1])
