"""W rules (C17): name-level wiring the type checker cannot see."""
import re
import struct

from . import arms as A
from .facts import MissingAnchor

# the DWARF / ELF section names (standard + GNU/LLVM conventions); type name -> section name
SECTION_NAMES = {
    'DebugAbbrev': '.debug_abbrev', 'DebugAddr': '.debug_addr', 'DebugAranges': '.debug_aranges',
    'DebugCuIndex': '.debug_cu_index', 'DebugFrame': '.debug_frame', 'EhFrame': '.eh_frame', 'EhFrameHdr': '.eh_frame_hdr',
    'DebugInfo': '.debug_info', 'DebugLine': '.debug_line', 'DebugLineStr': '.debug_line_str', 'DebugLoc': '.debug_loc',
    'DebugLocLists': '.debug_loclists', 'DebugMacinfo': '.debug_macinfo', 'DebugMacro': '.debug_macro',
    'DebugNames': '.debug_names', 'DebugPubNames': '.debug_pubnames', 'DebugPubTypes': '.debug_pubtypes',
    'DebugRanges': '.debug_ranges', 'DebugRngLists': '.debug_rnglists', 'DebugStr': '.debug_str',
    'DebugStrOffsets': '.debug_str_offsets', 'DebugTuIndex': '.debug_tu_index', 'DebugTypes': '.debug_types',
}
# sections that exist in split DWARF objects (DWARF 5 section 7.3.5 / GNU dwp): name + ".dwo"
DWO_CAPABLE = {'DebugAbbrev', 'DebugInfo', 'DebugLine', 'DebugLoc', 'DebugLocLists', 'DebugMacinfo', 'DebugMacro',
               'DebugRngLists', 'DebugStr', 'DebugStrOffsets', 'DebugTypes'}
DWO_BARE = {'DebugCuIndex', 'DebugTuIndex'}


def match_string_table(g, fn_path, enum_path):
    """variant -> string constant (or None) returned by a `match self { V => "..." }` function;
    handles Option<&str> returns too (Some("...") / None)."""
    fn = g.fn(fn_path)
    sw, t, pl = A.find_enum_switch(fn, enum_path)
    names = A.variant_names(g, enum_path)
    out = {}
    groups = {}
    for v, tgt in t['v']:
        groups.setdefault(tgt, []).append(names[v])
    listed = {v for v, _ in t['v']}
    rest = [names[v] for v in names if v not in listed]
    if rest:
        groups.setdefault(t['o'], []).extend(rest)
    for tgt, vs in groups.items():
        region = A.arm_blocks(fn, sw, tgt)
        val = '<?>'
        for b in sorted(region):
            for st in fn.stmts(b):
                if st[0] != 'a':
                    continue
                rv = st[2]
                if rv[0] == 'use' and rv[1][0] == 'k' and isinstance(rv[1][2], dict) and isinstance(rv[1][2].get('v'), str) \
                        and rv[1][2]['v'] != 'zst':
                    val = rv[1][2]['v']
                if rv[0] == 'agg' and rv[1][0] == 'adt' and g.strs[rv[1][1]] == 'core::option::Option':
                    if rv[1][2] == 'None':
                        val = None
                    elif rv[2] and rv[2][0][0] == 'k' and isinstance(rv[2][0][2].get('v'), str):
                        val = rv[2][0][2]['v']
        for v in vs:
            out[v] = val
    return out


def run_W1(rep, g):
    rep.rule('W1', 'section identity: each `impl Section for X` returns SectionId::X; SectionId::name()/dwo_name() return the '
             'standard section name per variant; dwo_name is Some for every IndexSectionId variant')
    ids = [f for f in g.fns.values() if f.impl_trait == 'read::Section' and f.name == 'id']
    rep.floor('W1', 'Section impls', len(ids), 23)
    for f in sorted(ids, key=lambda x: x.path):
        tyname = (f.impl_self_adt or '').split('::')[-1]
        ret = None
        for b in f.reach:
            for st in f.stmts(b):
                if st[0] == 'a' and st[1] == [0] and st[2][0] == 'agg' and st[2][1][0] == 'adt' and g.strs[st[2][1][1]] == 'common::SectionId':
                    ret = st[2][1][2]
        rep.check('W1', 'id|' + tyname, ret == tyname, '%s::id() returns SectionId::%s' % (tyname, ret), f.loc(), why='variant name equals type name')
    names = match_string_table(g, 'common::SectionId::name', 'common::SectionId')
    rep.floor('W1', 'SectionId::name rows', len(names), 23)
    for v in sorted(set(names) | set(SECTION_NAMES)):
        want = SECTION_NAMES.get(v)
        got = names.get(v)
        rep.check('W1', 'name|' + v, want is not None and got == want, 'SectionId::%s.name() = %r, standard name %r' % (v, got, want),
                  g.fn('common::SectionId::name').loc(), why='equals the standard section name')
    dwo = match_string_table(g, 'common::SectionId::dwo_name', 'common::SectionId')
    for v in sorted(SECTION_NAMES):
        got = dwo.get(v, '<?>')
        if v in DWO_CAPABLE:
            want = SECTION_NAMES[v] + '.dwo'
        elif v in DWO_BARE:
            want = SECTION_NAMES[v]
        else:
            want = None
        rep.check('W1', 'dwo_name|' + v, got == want, 'SectionId::%s.dwo_name() = %r, expected %r' % (v, got, want),
                  g.fn('common::SectionId::dwo_name').loc(), why='equals the split-DWARF section name')
    # IndexSectionId::section_id maps V -> SectionId::V and all of them have a dwo name
    fn = g.fn('read::index::IndexSectionId::section_id')
    sw, t, pl = A.find_enum_switch(fn, 'read::index::IndexSectionId')
    inames = A.variant_names(g, 'read::index::IndexSectionId')
    for v, tgt in t['v']:
        region = A.arm_blocks(fn, sw, tgt)
        ret = None
        for b in region:
            for st in fn.stmts(b):
                if st[0] == 'a' and st[1] == [0] and st[2][0] == 'agg' and st[2][1][0] == 'adt':
                    ret = st[2][1][2]
        nm = inames[v]
        rep.check('W1', 'index-section|' + nm, ret == nm and dwo.get(nm) is not None,
                  'IndexSectionId::%s -> SectionId::%s, dwo_name %r' % (nm, ret, dwo.get(nm)), fn.loc(), why='same-named variant with a dwo name')


def run_W4(rep, g):
    rep.rule('W4', 'CASE_FOLD_DATA is strictly increasing in its key (premise of the binary search in case_fold_data)')
    st = g.statics.get('case_fold::CASE_FOLD_DATA')
    if st is None or not st.get('target_hex'):
        raise MissingAnchor('static case_fold::CASE_FOLD_DATA (pointee bytes) not found')
    raw = bytes.fromhex(st['target_hex'])
    n = len(raw) // 8
    keys = [struct.unpack_from('<I', raw, i * 8)[0] for i in range(n)]
    rep.floor('W4', 'CASE_FOLD_DATA entries', n, 1000)
    bad = [i for i in range(1, n) if not keys[i - 1] < keys[i]]
    rep.check('W4', 'sorted', not bad, 'CASE_FOLD_DATA has %d entries; %d adjacent pairs out of order (first at %s)' % (n, len(bad), bad[:1]),
              'src/case_fold_data.rs', why='all %d adjacent key pairs strictly increasing' % (n - 1))
    m = re.search(r'; (\d+)\]', st['ty'])
    if m:
        rep.check('W4', 'length', int(m.group(1)) == n, 'declared length %s, data %d' % (m.group(1), n), why='type length equals data length')


STRIDE_SITES = [
    # (function, expected element width description, regex on the multiplication text)
    ('read::str::DebugStrOffsets::<R>::get_str_offset', 'word_size', r'word_size'),
    ('read::addr::DebugAddr::<R>::get_address', 'address_size', r'address_size'),
    ('read::rnglists::RangeLists::<R>::get_offset', 'word_size', r'word_size'),
    ('read::loclists::LocationLists::<R>::get_offset', 'word_size', r'word_size'),
]


def run_W3(rep, g):
    """stride = element width for indexed tables: the byte offset passed to skip is index * width and
    the element is then read with the primitive of that width."""
    from .ranges import Eval
    rep.rule('W3', 'indexed table access: the skip amount is index * element-width and the element is read with the primitive of '
             'that width (word_size -> read_offset(format), address_size -> read_address(address_size), 4 -> read_u32, 8 -> read_u64)')
    for path, width, pat in STRIDE_SITES:
        fn = g.fn(path)
        mults = []
        for bi in fn.reach:
            t = fn.term(bi)
            if t['k'] == 'call' and 'ptr' not in t['f'] and t['f'].get('name') in ('checked_mul', 'wrapping_mul', 'mul'):
                mults.append('%s * %s' % (fn.fmt_op(t['a'][0], 5), fn.fmt_op(t['a'][1], 5)))
            for st in fn.stmts(bi):
                if st[0] == 'a' and st[2][0] == 'bin' and st[2][1].startswith('Mul'):
                    mults.append('%s * %s' % (fn.fmt_op(st[2][2], 5), fn.fmt_op(st[2][3], 5)))
        reads = [t['f']['name'] for bi, t in fn.calls() if 'ptr' not in t['f'] and t['f'].get('trait') == 'read::reader::Reader'
                 and t['f']['name'].startswith('read_')]
        want_read = {'word_size': 'read_offset', 'address_size': 'read_address'}[width]
        ok = any(re.search(pat, m) and 'index' in m for m in mults) and reads == [want_read]
        rep.check('W3', 'stride|' + path, ok, 'multiplications %s; element reads %s (expected index * %s then %s)' % (mults, reads, width, want_read),
                  fn.loc(), why='index * %s, then %s' % (width, want_read))
    # fixed-width tables in names.rs / index.rs: constant stride equals the width of the read that follows
    fixed = [
        ('read::names::NameIndex::<R>::local_type_unit', None), ('read::names::NameIndex::<R>::compile_unit', None),
        ('read::names::NameIndex::<R>::foreign_type_unit', 8), ('read::names::NameBucketIter::<R>::new', 4),
    ]
    widths = {'read_u32': 4, 'read_u64': 8}
    for path, const in fixed:
        fn = g.fns.get(path)
        if fn is None:
            raise MissingAnchor(path)
        consts = []
        for bi in fn.reach:
            for st in fn.stmts(bi):
                if st[0] == 'a' and st[2][0] == 'bin' and st[2][1].startswith('Mul'):
                    for o in (st[2][2], st[2][3]):
                        if o[0] == 'k' and isinstance(o[2].get('v'), int):
                            consts.append(o[2]['v'])
        reads = [t['f']['name'] for bi, t in fn.calls() if 'ptr' not in t['f'] and t['f'].get('trait') == 'read::reader::Reader'
                 and t['f']['name'].startswith('read_')]
        if const is None:
            ok = ('read_offset' in reads or 'read_word' in reads) and not consts or all(c in (4, 8) for c in consts)
            rep.check('W3', 'stride|' + path, bool(reads) and ok, 'constants %s, reads %s' % (consts, reads), fn.loc(), why='offset-sized stride with offset-sized read')
        else:
            ok = consts and all(c == const for c in consts) and all(widths.get(r) == const for r in reads if r in widths) and any(r in widths for r in reads)
            rep.check('W3', 'stride|' + path, ok, 'stride constants %s, reads %s (expected %d-byte elements)' % (consts, reads, const), fn.loc(),
                      why='stride %d with %d-byte reads' % (const, const))


def run_F_lookup(rep, g, rule='F-offset-id'):
    """every section-holding field of read::Dwarf participates in Dwarf::lookup_offset_id"""
    rep.rule(rule, 'field coverage: every section field of read::Dwarf (a field whose type implements Section, or the two list wrappers) '
             'is consulted by Dwarf::lookup_offset_id, so an error raised inside any loaded section can be mapped back to (section, offset)')
    adt = g.adt('read::dwarf::Dwarf')
    section_types = {i['self_adt'] for i in g.impls if i['trait'] == 'read::Section' and i['self_adt']}
    wrappers = {'read::loclists::LocationLists', 'read::rnglists::RangeLists'}
    fields = []
    for f in adt['variants'][0]['fields']:
        base = f['ty'].split('<')[0]
        if base in section_types or base in wrappers:
            fields.append(f['name'])
    rep.floor(rule, 'section fields of read::Dwarf', len(fields), 14)
    touched = set()
    for p, fn in g.fns.items():
        if p == 'read::dwarf::Dwarf::<R>::lookup_offset_id' or p.startswith('read::dwarf::Dwarf::<R>::lookup_offset_id::{closure'):
            for bi in fn.reach:
                stmts, t = fn.blocks[bi]
                pls = [st[1] for st in stmts if st[0] == 'a'] + [st[2][1] for st in stmts if st[0] == 'a' and st[2][0] in ('ref', 'cfd')]
                for st in stmts:
                    if st[0] == 'a':
                        from .facts import rv_operands
                        for o in rv_operands(st[2]):
                            if o[0] in ('c', 'm'):
                                pls.append(o[1])
                for pl in pls:
                    for pr in pl[1:]:
                        if isinstance(pr, list) and pr[0] == 'f' and pr[3] is not None and g.strs[pr[3]] == 'read::dwarf::Dwarf':
                            touched.add(pr[2])
    fn = g.fn('read::dwarf::Dwarf::<R>::lookup_offset_id')
    for f in fields:
        if f in touched:
            rep.ok(rule, 'Dwarf.' + f, 'consulted', fn.loc(), why='field is read inside lookup_offset_id')
        else:
            rep.bad(rule, 'Dwarf.' + f, 'Dwarf::lookup_offset_id never consults the `%s` section, so format_error cannot locate errors raised inside it' % f, fn.loc())
