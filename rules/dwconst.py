"""K0: the DW_* constants have the values of the DWARF standard's encoding tables.

Every reader `match` and every writer emission goes through these constants, so a changed value moves reader and writer together:
the round-trip stays intact, the pairing rules (K1, K4) stay satisfied — and the bytes no longer mean what the standard says.
tables/dw_constants.json holds the value of each constant of the pinned tree, 796 of 887 cross-checked (tools/gen_constants.py)
against LLVM 14's Dwarf.def / Dwarf.h, an independent transcription of the standard.  One obligation per constant of the families
the property depends on; a listed constant that no longer exists makes the check unable to decide."""
import json
import os

FAMILIES = {
    'C02': ['DwTag', 'DwChildren', 'DwUt'],
    'C03': ['DwForm', 'DwAt', 'DwLang', 'DwAte', 'DwAccess', 'DwVis', 'DwVirtuality', 'DwId', 'DwCc', 'DwInl', 'DwOrd', 'DwDsc',
            'DwDs', 'DwEnd', 'DwDefaulted', 'DwAddr'],
    'C04': ['DwLns', 'DwLne', 'DwLnct'],
    'C05': ['DwEhPe'],
    'C06': ['DwCfa'],
    'C07': ['DwOp', 'DwAte'],
    'C08': ['DwRle', 'DwLle'],
    'C11': ['DwForm', 'DwUt', 'DwChildren'],
    'C12': ['DwMacro', 'DwMacinfo'],
    'C13': ['DwLns', 'DwLne', 'DwLnct'],
    'C14': ['DwCfa', 'DwEhPe'],
    'C15': ['DwOp'],
    'C16': ['DwRle', 'DwLle'],
    'C17': ['DwIdx', 'DwSect', 'DwSectV2'],
}
# encoding-defining constants that are not DW_* newtype constants: (value, properties, what the standard says)
EXTRA = {
    'constants::DW_EH_PE_FORMAT_MASK': (0x0f, ('C05', 'C14'), 'LSB: low nibble of a pointer encoding is the value format'),
    'constants::DW_EH_PE_APPLICATION_MASK': (0x70, ('C05', 'C14'), 'LSB: bits 4-6 of a pointer encoding are the application'),
    'leb128::CONTINUATION_BIT': (0x80, ('C09',), 'DWARF 5 section 7.6: the high bit of each LEB128 byte says another byte follows'),
    'leb128::SIGN_BIT': (0x40, ('C09',), 'DWARF 5 section 7.6: bit 6 of the last SLEB128 byte is the sign'),
    'read::cfi::CFI_INSTRUCTION_HIGH_BITS_MASK': (0xc0, ('C06', 'C05'), 'DWARF 5 section 7.24: the high 2 bits of a CFA opcode byte are the primary opcode'),
    'read::cfi::CFI_INSTRUCTION_LOW_BITS_MASK': (0x3f, ('C06', 'C05'), 'DWARF 5 section 7.24: the low 6 bits are the operand / extended opcode'),
}

FLOORS = {'C02': 127, 'C03': 445, 'C04': 26, 'C05': 16, 'C06': 33, 'C07': 199, 'C08': 18, 'C11': 59, 'C12': 19, 'C13': 26, 'C14': 49,
          'C15': 179, 'C16': 18, 'C17': 22}


def run_K0_extra(rep, g, prop):
    mine = {p_: v for p_, v in EXTRA.items() if prop in v[1]}
    if not mine:
        return
    rep.rule('K0', 'encoding-defining masks and bits have the values the standard defines')
    for path, (val, _props, why) in sorted(mine.items()):
        c = g.consts.get(path)
        if c is None:
            rep.cannot_decide('K0: constant %s no longer exists' % path)
            continue
        rep.check('K0', path.split('::')[-1], c['v'] == val,
                  '%s = %s, the standard value is %#x (%s)' % (path, c['v'], val, why), 'src/%s.rs' % path.rsplit('::', 1)[0].replace('::', '/'),
                  why='value equals the standard value: ' + why)


def run_K0(rep, g, prop):
    run_K0_extra(rep, g, prop)
    fams = FAMILIES.get(prop)
    if not fams:
        return
    from .core import VERIF
    table = json.load(open(os.path.join(VERIF, 'tables', 'dw_constants.json')))['rows']
    rep.rule('K0', 'every DW_* constant of %s has the value the DWARF standard (and the GNU/LLVM extension lists) assigns to it '
             '(tables/dw_constants.json, cross-checked against LLVM 14 Dwarf.def when generated)' % ', '.join(fams))
    want = {'constants::' + f for f in fams}
    have = {c['path'].split('::')[-1]: c for c in g.consts.values() if c['path'].startswith('constants::DW_')}
    n = 0
    for name, row in sorted(table.items()):
        if row['ty'] not in want:
            continue
        c = have.get(name)
        if c is None:
            rep.cannot_decide('K0: constant constants::%s of the reviewed table no longer exists' % name)
            continue
        n += 1
        ok = c['v'] == row['v'] and c['ty'] == row['ty']
        rep.check(
            'K0', name, ok,
            'constants::%s = %s(%#x), the standard value is %s(%#x) [%s]: every reader match and writer emission that goes through this '
            'constant now uses a different encoding than the standard' % (name, c['ty'].split('::')[-1], c['v'] if c['v'] is not None else -1,
                                                                        row['ty'].split('::')[-1], row['v'], row['source']),
            'src/constants.rs:%s' % c.get('line', '?'), why='value equals the standard value')
    rep.floor('K0', 'constants of %s checked' % '/'.join(fams), n, FLOORS[prop])
    # two constants of one family with the same value would make a `match` arm unreachable: the newtype constants of a family are distinct
    # except for the documented aliases of the standard itself
