"""Per-property registration used by tools/gen_manifest.py (MANIFEST.json is generated)."""

CLAIMED = {
    'C01': dict(
        technique='static analysis: MIR call-graph reachability + panic-site audit (interval/guard abstract interpretation) + narrowing-cast audit + iterator progress/fuse dataflow + loop classification + SCC recursion check',
        text='Static analysis of the MIR of every function reachable from the public reading / lookup / unwinding / evaluation / conversion entry points. T1: every return of every lazy-iterator step method has consumed input, emptied its reader, observed the end, or delegated to an iterator that did (so a caller that ignores errors still finishes in input-bounded steps). T2: iterators documented as fused reach `Reader::empty` on every path that returns Err. T3: the read-reachable call graph has no recursion. P/N: every panic-capable site (overflow/div/bounds asserts, trait arithmetic on offsets, unwrap/expect/panic!, narrowing casts) reachable from the roots is discharged by constant/interval reasoning, by a dominating guard, or by an exact-key reviewed entry; anything else is a violation. Value-level behaviour on concrete inputs is NOT decided.',
        note='Trusted: rustc MIR (mir-opt-level 0, host x86_64), reviewed_sites.json reasons (exact keys, several with machine-checked guard requirements), contracts of core/alloc. Assumes Encoding passed through public API parameters has address_size in {1,2,4,8}. Known findings are listed, not suppressed by pattern.',
        design_ref='§4 C01'),
    'C02': dict(
        technique='static analysis: codec effect summaries of the unit-header reader and whole-function store/call fingerprints of the entry readers compared with reviewed tables',
        text='Structural necessary conditions for the DIE forest: the unit-header reader consumes exactly the reviewed field sequence per version/unit type; EntriesRaw.depth is stored only by the four reviewed shapes; end_offset is fixed at construction and the raw reader is only ever advanced; duplicate abbreviation codes reach the error exit. Forest equality over generated inputs is NOT decided.',
        note='Trusted: rustc MIR (mir-opt-level 0, host x86_64, test-suite feature set), the reviewed tables under /verif/tables (rows generated from the pinned tree and reviewed against the DWARF standard / sibling implementation), contracts of core/alloc. A fingerprint row is coarse (sets of stores, callees, error variants, codec atoms): numeric behaviour inside an arm is not decided.',
        design_ref='§4 C02'),
    'C03': dict(
        technique='static analysis: per-DW_FORM codec effect summaries (reader, line-table reader, skipper) compared with the reviewed standard table',
        text='Per DW_FORM constant: the attribute reader, the line-table attribute reader and the attribute skipper consume the reviewed (standard) operand sequence; the advertised fixed size of a form equals the bytes the reader consumes for it; skipping and reading handle the same set of forms; name-based normalisation (Attribute::value) contains no arithmetic and no narrowing cast. Decoded values are NOT decided.',
        note='Trusted: rustc MIR (mir-opt-level 0, host x86_64, test-suite feature set), the reviewed tables under /verif/tables (rows generated from the pinned tree and reviewed against the DWARF standard / sibling implementation), contracts of core/alloc. A fingerprint row is coarse (sets of stores, callees, error variants, codec atoms): numeric behaviour inside an arm is not decided.',
        design_ref='§4 C03'),
    'C04': dict(
        technique='static analysis: per-instruction arm summaries (stores/calls/errors) and codec effect summaries compared with reviewed tables; narrowing-cast audit of line.rs',
        text='Per line-number instruction: LineRow::execute stores exactly the registers the reviewed (standard) table names and reaches the checked address arithmetic; every store to LineRow.address is one of three monotone shapes (checked add_sized, guarded SetAddress, reset via LineRow::new); the opcode decoder consumes the standard operand kinds; header validation of zero parameters precedes their use. Row equality with the state machine over all programs is NOT decided.',
        note='Trusted: rustc MIR (mir-opt-level 0, host x86_64, test-suite feature set), the reviewed tables under /verif/tables (rows generated from the pinned tree and reviewed against the DWARF standard / sibling implementation), contracts of core/alloc. A fingerprint row is coarse (sets of stores, callees, error variants, codec atoms): numeric behaviour inside an arm is not decided.',
        design_ref='§4 C04'),
    'C05': dict(
        technique='static analysis: codec effect summaries of the CFI prefix / encoded-value readers compared with reviewed tables',
        text='The pointer-encoding validator accepts only formats/applications that the decoder handles (X1 as sets over all encodings); every successful FDE lookup return is dominated by a `contains(address)` test; CIE/FDE prefix and encoded-value readers consume the reviewed field sequences. Completeness of lookups (binary search correctness) is NOT decided.',
        note='Trusted: rustc MIR (mir-opt-level 0, host x86_64, test-suite feature set), the reviewed tables under /verif/tables (rows generated from the pinned tree and reviewed against the DWARF standard / sibling implementation), contracts of core/alloc. A fingerprint row is coarse (sets of stores, callees, error variants, codec atoms): numeric behaviour inside an arm is not decided.',
        design_ref='§4 C05'),
    'C06': dict(
        technique='static analysis: per-DW_CFA arm summaries of UnwindTable::evaluate, decoder effect summaries and UnwindContext function fingerprints compared with reviewed tables',
        text='Per DW_CFA instruction: the decoder consumes the standard operand kinds; UnwindTable::evaluate stores/call-sets per arm equal the reviewed table (factoring by the data/code alignment factor exactly in the arms the standard names, context-restriction error exits present, StackFull/TooManyRegisterRules mapping). Row values over all instruction sequences are NOT decided.',
        note='Trusted: rustc MIR (mir-opt-level 0, host x86_64, test-suite feature set), the reviewed tables under /verif/tables (rows generated from the pinned tree and reviewed against the DWARF standard / sibling implementation), contracts of core/alloc. A fingerprint row is coarse (sets of stores, callees, error variants, codec atoms): numeric behaviour inside an arm is not decided.',
        design_ref='§4 C06'),
    'C07': dict(
        technique='static analysis: per-DW_OP decoder effect summaries, per-Operation evaluator arm summaries and evaluator function fingerprints compared with reviewed tables',
        text="Per DW_OP opcode: Operation::parse consumes the standard operand kinds; per Operation variant the evaluator's arm calls the reviewed set of stack/value operations and error exits; the iteration limit is incremented and tested in every cycle that evaluates an operation; branch targets come only from the bounds-checked compute_pc; each Waiting state pairs with its resume method. Numeric results are NOT decided.",
        note='Trusted: rustc MIR (mir-opt-level 0, host x86_64, test-suite feature set), the reviewed tables under /verif/tables (rows generated from the pinned tree and reviewed against the DWARF standard / sibling implementation), contracts of core/alloc. A fingerprint row is coarse (sets of stores, callees, error variants, codec atoms): numeric behaviour inside an arm is not decided.',
        design_ref='§4 C07'),
    'C08': dict(
        technique='static analysis: per-DW_RLE/DW_LLE decoder effect summaries and convert_raw arm summaries compared with reviewed tables',
        text='Per DW_RLE/DW_LLE kind: the raw entry decoders consume the standard operand kinds; convert_raw per-variant call sets equal the reviewed table; the only Ok(Some(range)) return of both convert_raw functions is dominated by the emptiness/tombstone guard. Resolved values are NOT decided.',
        note='Trusted: rustc MIR (mir-opt-level 0, host x86_64, test-suite feature set), the reviewed tables under /verif/tables (rows generated from the pinned tree and reviewed against the DWARF standard / sibling implementation), contracts of core/alloc. A fingerprint row is coarse (sets of stores, callees, error variants, codec atoms): numeric behaviour inside an arm is not decided.',
        design_ref='§4 C08'),
    'C09': dict(
        technique='static analysis: narrowing-cast audit of the primitive codecs, endianness-polarity dominance rule, function fingerprints of the codecs',
        text='Narrowing discipline and sibling agreement of the primitive codecs: every narrowing cast in leb128::read / Reader defaults / ReaderOffset impls is a checked idiom; endianness polarity of all Endianity read/write functions agrees; size helpers and encoders share loop structure. Exactness over all byte strings is NOT decided.',
        note='Trusted: rustc MIR (mir-opt-level 0, host x86_64, test-suite feature set), the reviewed tables under /verif/tables (rows generated from the pinned tree and reviewed against the DWARF standard / sibling implementation), contracts of core/alloc. A fingerprint row is coarse (sets of stores, callees, error variants, codec atoms): numeric behaviour inside an arm is not decided.',
        design_ref='§4 C09'),
    'C10': dict(
        technique='static analysis: unsafe census and store-discipline audit (dominance by assert guards), delegation-shape rule for RelocateReader, reader function fingerprints, compile-fail witnesses',
        text='Unsafe audit of the shared-buffer reader (private fields, stores only in new/skip/truncate behind asserts, from_raw_parts lengths), delegation shape of RelocateReader, Reader trait parametricity premise, and compile-fail witnesses (EndianRcSlice !Send, sub-reader cannot outlive buffer, private range field). Observational equality of reader kinds is NOT decided.',
        note='Trusted: rustc MIR (mir-opt-level 0, host x86_64, test-suite feature set), the reviewed tables under /verif/tables (rows generated from the pinned tree and reviewed against the DWARF standard / sibling implementation), contracts of core/alloc. A fingerprint row is coarse (sets of stores, callees, error variants, codec atoms): numeric behaviour inside an arm is not decided.',
        design_ref='§4 C10'),
    'C11': dict(
        technique='static analysis: per-AttributeValue form/size/write summaries compared with reviewed tables and size-model vs emission bag equality',
        text='Per write::AttributeValue variant: form/size/write fingerprints equal the reviewed table and the size model equals the emitted bytes (bag equality); fix-ups are pushed immediately before a same-size placeholder. Forest equality after reading back is NOT decided.',
        note='Trusted: rustc MIR (mir-opt-level 0, host x86_64, test-suite feature set), the reviewed tables under /verif/tables (rows generated from the pinned tree and reviewed against the DWARF standard / sibling implementation), contracts of core/alloc. A fingerprint row is coarse (sets of stores, callees, error variants, codec atoms): numeric behaviour inside an arm is not decided.',
        design_ref='§4 C11'),
    'C12': dict(
        technique='static analysis: per-variant converter arm summaries (no reachable wildcard) compared with reviewed tables',
        text='Converters name every source variant (no reachable wildcard), their per-variant call/error sets equal the reviewed tables; no unchecked narrowing of read-derived values in convert-reachable code (shared with C01 known findings). Semantic equality of input and output is NOT decided.',
        note='Trusted: rustc MIR (mir-opt-level 0, host x86_64, test-suite feature set), the reviewed tables under /verif/tables (rows generated from the pinned tree and reviewed against the DWARF standard / sibling implementation), contracts of core/alloc. A fingerprint row is coarse (sets of stores, callees, error variants, codec atoms): numeric behaviour inside an arm is not decided.',
        design_ref='§4 C12'),
    'C13': dict(
        technique='static analysis: per-LineInstruction emitted codec sequences compared with the reviewed table',
        text="Per write::LineInstruction variant the emitted operand sequence equals the reviewed table and pairs with the reader's decoder for the same opcode; extended-opcode lengths equal the bytes that follow. Opcode selection arithmetic is NOT decided.",
        note='Trusted: rustc MIR (mir-opt-level 0, host x86_64, test-suite feature set), the reviewed tables under /verif/tables (rows generated from the pinned tree and reviewed against the DWARF standard / sibling implementation), contracts of core/alloc. A fingerprint row is coarse (sets of stores, callees, error variants, codec atoms): numeric behaviour inside an arm is not decided.',
        design_ref='§4 C13'),
    'C14': dict(
        technique='static analysis: per-CallFrameInstruction emitted codec sequences compared with the reviewed table',
        text="Per write::CallFrameInstruction variant the emitted operand sequences equal the reviewed table and pair with the reader's decoder; factored writes are preceded by the exactness checks with an error exit. Equality of evaluated rows is NOT decided.",
        note='Trusted: rustc MIR (mir-opt-level 0, host x86_64, test-suite feature set), the reviewed tables under /verif/tables (rows generated from the pinned tree and reviewed against the DWARF standard / sibling implementation), contracts of core/alloc. A fingerprint row is coarse (sets of stores, callees, error variants, codec atoms): numeric behaviour inside an arm is not decided.',
        design_ref='§4 C14'),
    'C15': dict(
        technique='static analysis: per-Operation emitted codec sequences and size model compared with reviewed tables; size vs write bag equality',
        text='Per write::Operation variant: emitted sequences equal the reviewed table, the size model equals the emitted bytes (bag equality), branch displacement and length prefixes come from the same size() calls. Evaluation equality is NOT decided.',
        note='Trusted: rustc MIR (mir-opt-level 0, host x86_64, test-suite feature set), the reviewed tables under /verif/tables (rows generated from the pinned tree and reviewed against the DWARF standard / sibling implementation), contracts of core/alloc. A fingerprint row is coarse (sets of stores, callees, error variants, codec atoms): numeric behaviour inside an arm is not decided.',
        design_ref='§4 C15'),
    'C16': dict(
        technique='static analysis: per-Range/Location emitted codec sequences per encoding compared with reviewed tables',
        text='Per write Range/Location variant and encoding: emitted sequences equal the reviewed table; validity error exits present on the stated edges. Value equality after reading back is NOT decided.',
        note='Trusted: rustc MIR (mir-opt-level 0, host x86_64, test-suite feature set), the reviewed tables under /verif/tables (rows generated from the pinned tree and reviewed against the DWARF standard / sibling implementation), contracts of core/alloc. A fingerprint row is coarse (sets of stores, callees, error variants, codec atoms): numeric behaviour inside an arm is not decided.',
        design_ref='§4 C16'),
    'C17': dict(
        technique='static analysis: section identity/name wiring tables from MIR, stride=width rule for indexed tables, sortedness of the case-fold static',
        text='Wiring tables: each Section impl returns its own SectionId, SectionId::name/dwo_name agree with the reviewed name table, indexed table accesses use stride = element width, CASE_FOLD_DATA is sorted. Lookup completeness is NOT decided.',
        note='Trusted: rustc MIR (mir-opt-level 0, host x86_64, test-suite feature set), the reviewed tables under /verif/tables (rows generated from the pinned tree and reviewed against the DWARF standard / sibling implementation), contracts of core/alloc. A fingerprint row is coarse (sets of stores, callees, error variants, codec atoms): numeric behaviour inside an arm is not decided.',
        design_ref='§4 C17'),
    'C18': dict(
        technique='static analysis: override-set and ordering rule for RelocateReader/RelocateWriter, provenance (backward slice) of offset/address values',
        text='RelocateReader overrides exactly the relocatable primitives and takes the offset before the inner read; RelocateWriter overrides exactly the relocatable writers; offset newtypes are built from relocatable reads. Byte identity of relocated output is NOT decided.',
        note='Trusted: rustc MIR (mir-opt-level 0, host x86_64, test-suite feature set), the reviewed tables under /verif/tables (rows generated from the pinned tree and reviewed against the DWARF standard / sibling implementation), contracts of core/alloc. A fingerprint row is coarse (sets of stores, callees, error variants, codec atoms): numeric behaviour inside an arm is not decided.',
        design_ref='§4 C18'),
    'C19': dict(
        technique='static analysis: per-variant arm summaries of the filter edge collectors compared with reviewed tables',
        text='Edge-kind agreement: the attribute/operation variants for which conversion creates an entry reference are a subset of those the filter follows; per-variant fingerprints of the filter equal the reviewed tables. Closure/minimality over all graphs is NOT decided.',
        note='Trusted: rustc MIR (mir-opt-level 0, host x86_64, test-suite feature set), the reviewed tables under /verif/tables (rows generated from the pinned tree and reviewed against the DWARF standard / sibling implementation), contracts of core/alloc. A fingerprint row is coarse (sets of stores, callees, error variants, codec atoms): numeric behaviour inside an arm is not decided.',
        design_ref='§4 C19'),
    'C20': dict(
        technique='static analysis: reset/clear dominance rules, field-coverage of reset, interior-mutability query, compile-fail witnesses',
        text='Reset discipline: UnwindContext::initialize resets before use and reset stores every field; read_attributes clears the buffer first; no iterator/cursor type holds interior mutability; witnesses that two tables cannot share a context. Equality of reused vs fresh results is NOT decided.',
        note='Trusted: rustc MIR (mir-opt-level 0, host x86_64, test-suite feature set), the reviewed tables under /verif/tables (rows generated from the pinned tree and reviewed against the DWARF standard / sibling implementation), contracts of core/alloc. A fingerprint row is coarse (sets of stores, callees, error variants, codec atoms): numeric behaviour inside an arm is not decided.',
        design_ref='§4 C20'),
}

NOT_APPLICABLE = {}
