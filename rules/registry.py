"""Per-property registration used by tools/gen_manifest.py (MANIFEST.json is generated)."""

# property id -> dict(technique, text, note, design_ref) ; absent => not claimed (with reason)
CLAIMED = {
    'C01': dict(
        technique='static analysis: MIR call-graph reachability + panic-site audit (interval/guard abstract '
                  'interpretation) + iterator progress/fuse dataflow + SCC recursion check',
        text='For every function reachable from the public read/lookup/unwind/evaluate/convert entry points: every '
             'panic-capable MIR site is proven safe by interval+guard reasoning, carries an exact-key reviewed reason, '
             'or is a listed known finding; every iterator step method progresses, empties or stops on all paths; '
             'documented-fused iterators empty their reader before returning Err; no recursion. Structural (all paths '
             'of the code), not behavioural: no input is executed.',
        note='Trusted: rustc MIR (mir-opt-level 0, host x86_64), reviewed_sites.json reasons, contracts of '
             'core/alloc. Assumes Encoding passed through public API parameters has address_size in {1,2,4,8}.',
        design_ref='§2 P,N,T; §4 C01'),
}

NOT_APPLICABLE = {
}
