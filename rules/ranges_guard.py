"""D8 (C08): every range handed to the caller passed the emptiness / tombstone guard."""
from .ranges import Eval
from . import arms as A


def _ok_some_blocks(fn):
    """blocks that build Ok(Some(x)) / Some(x) for the return place (through a temp)"""
    g = fn.facts
    out = []
    for bi in sorted(fn.reach):
        for st in fn.stmts(bi):
            if st[0] == 'a' and st[2][0] == 'agg' and st[2][1][0] == 'adt' and g.strs[st[2][1][1]] == 'core::option::Option' and st[2][1][2] == 'Some':
                out.append((bi, st))
    return out


def run_D8(rep, g, rule='D8-guard'):
    rep.rule(rule, 'every address range yielded by the range/location iterators is produced under the guard '
             '`!(begin >= min_tombstone(address_size) || begin >= end)`: the Some(range) construction in convert_raw is dominated by both '
             'comparisons\' passing edges, and every other yielding path forwards a convert_raw result')
    for path in ('read::rnglists::RngListIter::<R>::convert_raw', 'read::loclists::LocListIter::<R>::convert_raw'):
        fn = g.fn(path)
        ev = Eval(fn)
        somes = _ok_some_blocks(fn)
        n = 0
        for bi, st in somes:
            n += 1
            facts = [(o, ev.canon(a), ev.canon(b)) for (o, a, b, gb) in ev.cond_facts(bi)]
            nonempty = any(o in ('Lt', 'Gt') and 'begin' in (x + y) and 'end' in (x + y) for (o, x, y) in facts)
            tomb = any(o in ('Lt', 'Gt') and 'begin' in (x + y) and ('min_tombstone' in (x + y) or 'wrapping_add' in (x + y) or 'ones_sized' in (x + y)) for (o, x, y) in facts)
            rep.check(rule, '%s|Some#%d' % (path, n), nonempty and tomb,
                      'Some(range) at bb%d: dominating comparisons %s' % (bi, [f for f in facts if 'begin' in f[1] + f[2]]), fn.loc(st[3]),
                      why='dominated by begin < end and begin < min_tombstone')
        rep.floor(rule, 'Some(range) constructions in ' + path.split('::')[-2], n, 1)
    # RangeIter::next: per variant of RangeIterInner
    fn = g.fn('read::dwarf::RangeIter::<R>::next')
    sw, t, pl = A.find_enum_switch(fn, 'read::dwarf::RangeIterInner')
    names = A.variant_names(g, 'read::dwarf::RangeIterInner')
    for v, tgt in t['v']:
        region = A.arm_blocks(fn, sw, tgt)
        calls = [fn.term(b)['f'].get('name') for b in region if fn.term(b)['k'] == 'call' and 'ptr' not in fn.term(b)['f']]
        nm = names[v]
        if 'next' in calls and 'take' not in calls:
            rep.ok(rule, 'RangeIter::next|' + nm, 'delegates to RngListIter::next', fn.loc(), why='forwards a guarded iterator')
        elif _stored_ranges_guarded(g, nm):
            rep.ok(rule, 'RangeIter::next|' + nm, 'yields the stored range; every construction of RangeIterInner::%s stores None or an Option::filter result whose '
                   'predicate is `begin < min_tombstone(address_size) && begin < end`' % nm, fn.loc(), why='the guard is applied where the range is stored')
        else:
            rep.bad(rule, 'RangeIter::next|' + nm, 'the %s arm yields a stored range (%s) without the emptiness / tombstone guard that list ranges pass'
                    % (nm, calls), fn.loc())


def _guard_closure(g, path):
    """the closure returns true only on the path where `begin < min_tombstone(..)` held, and then returns `begin < end`"""
    c = g.fns.get(path)
    if c is None:
        return False
    ev = Eval(c)
    good = 0
    for b in sorted(c.reach):
        for st in c.stmts(b):
            if st[0] != 'a' or st[1] != [0]:
                continue
            rv = st[2]
            if rv[0] == 'use' and rv[1][0] == 'k' and rv[1][2].get('v') in (0, False):
                continue                            # `false`
            txt = c.fmt_rv(rv, 6)
            if rv[0] == 'bin' and rv[1] == 'Lt' and 'begin' in txt.split(' Lt ')[0] and 'end' in txt.split(' Lt ')[-1]:
                facts = [(o, ev.canon(a_), ev.canon(b_)) for (o, a_, b_, gb) in ev.cond_facts(b)]
                if any(o == 'Lt' and 'begin' in x and 'min_tombstone' in y for (o, x, y) in facts):
                    good += 1
                    continue
            return False                            # any other way to produce the result
    return good >= 1


def _stored_ranges_guarded(g, variant):
    n = 0
    for p, fn in g.fns.items():
        if '::tests::' in p:
            continue
        for b in sorted(fn.reach):
            for st in fn.stmts(b):
                if st[0] != 'a' or st[2][0] != 'agg' or st[2][1][0] != 'adt':
                    continue
                if g.strs[st[2][1][1]] != 'read::dwarf::RangeIterInner' or st[2][1][2] != variant:
                    continue
                n += 1
                op = st[2][2][0]
                if op[0] == 'k':
                    continue                        # a constant None
                sd = fn.single_def(op[1][0]) if len(op[1]) == 1 else None
                for _ in range(4):
                    if sd is not None and sd[1] != 'term' and sd[2][0] == 'use' and sd[2][1][0] in ('c', 'm') and len(sd[2][1][1]) == 1:
                        sd = fn.single_def(sd[2][1][1][0])
                if sd is None:
                    return False
                if sd[1] != 'term':
                    rv = sd[2]
                    if rv[0] == 'agg' and rv[1][0] == 'adt' and rv[1][2] == 'None':
                        continue
                    return False
                t = sd[2]
                if t['f'].get('name') != 'filter' or len(t['a']) < 2 or t['a'][1][0] not in ('c', 'm'):
                    return False
                cd = fn.single_def(t['a'][1][1][0])
                if cd is None or cd[1] == 'term' or cd[2][0] != 'agg' or cd[2][1][0] != 'closure':
                    return False
                if not _guard_closure(g, cd[2][1][1]):
                    return False
    return n > 0
