"""D8 (C08): every range handed to the caller passed the emptiness / tombstone guard."""
from .ranges import Eval
from . import arms as A


def _ok_some_blocks(fn):
    """blocks that build Ok(Some(x)) / Some(x) for the return place (through a temp)"""
    g = fn.facts
    out = []
    for bi in sorted(fn.reach):
        for st in fn.stmts(bi):
            if st[0] == 'a' and st[2][0] == 'agg' and st[2][1][0] == 'adt' and g.strs[st[2][1][1]] == 'core::option::Option' and st[2][1][2] == 'Some':
                out.append((bi, st))
    return out


def run_D8(rep, g, rule='D8-guard'):
    rep.rule(rule, 'every address range yielded by the range/location iterators is produced under the guard '
             '`!(begin >= min_tombstone(address_size) || begin >= end)`: the Some(range) construction in convert_raw is dominated by both '
             'comparisons\' passing edges, and every other yielding path forwards a convert_raw result')
    for path in ('read::rnglists::RngListIter::<R>::convert_raw', 'read::loclists::LocListIter::<R>::convert_raw'):
        fn = g.fn(path)
        ev = Eval(fn)
        somes = _ok_some_blocks(fn)
        n = 0
        for bi, st in somes:
            n += 1
            facts = [(o, ev.canon(a), ev.canon(b)) for (o, a, b, gb) in ev.cond_facts(bi)]
            nonempty = any(o in ('Lt', 'Gt') and 'begin' in (x + y) and 'end' in (x + y) for (o, x, y) in facts)
            tomb = any(o in ('Lt', 'Gt') and 'begin' in (x + y) and ('min_tombstone' in (x + y) or 'wrapping_add' in (x + y) or 'ones_sized' in (x + y)) for (o, x, y) in facts)
            rep.check(rule, '%s|Some#%d' % (path, n), nonempty and tomb,
                      'Some(range) at bb%d: dominating comparisons %s' % (bi, [f for f in facts if 'begin' in f[1] + f[2]]), fn.loc(st[3]),
                      why='dominated by begin < end and begin < min_tombstone')
        rep.floor(rule, 'Some(range) constructions in ' + path.split('::')[-2], n, 1)
    # RangeIter::next: per variant of RangeIterInner
    fn = g.fn('read::dwarf::RangeIter::<R>::next')
    sw, t, pl = A.find_enum_switch(fn, 'read::dwarf::RangeIterInner')
    names = A.variant_names(g, 'read::dwarf::RangeIterInner')
    for v, tgt in t['v']:
        region = A.arm_blocks(fn, sw, tgt)
        calls = [fn.term(b)['f'].get('name') for b in region if fn.term(b)['k'] == 'call' and 'ptr' not in fn.term(b)['f']]
        nm = names[v]
        if 'next' in calls and 'take' not in calls:
            rep.ok(rule, 'RangeIter::next|' + nm, 'delegates to RngListIter::next', fn.loc(), why='forwards a guarded iterator')
        else:
            rep.bad(rule, 'RangeIter::next|' + nm, 'the %s arm yields a stored range (%s) without the emptiness / tombstone guard that list ranges pass'
                    % (nm, calls), fn.loc())
