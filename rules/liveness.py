"""Checker liveness: every run analyses the fixture crate (deliberate violations) with the same
driver and the same rule code; a rule that stays silent on its fixture is broken."""
import os
import sys

from . import core


class _Silent(core.Report):
    """collects obligations without consulting the reviewed / known tables"""

    def add(self, ob):
        self.obs.append(ob)
        return ob

    def floor(self, *a, **k):
        pass


def _tables_off():
    class T:
        reviewed = []
        known = []

        def reviewed_entry(self, *a):
            return None

        def known_entry(self, *a):
            return None
    return T()


def run_liveness(rep, fx, which):
    """which: iterable of rule ids among T1,T2,T3,T4,P-overflow,P-div,P-unwrap,N,R1,U0"""
    rep.rule('L', 'liveness: the rule fires on its deliberate violation in fixtures/src/lib.rs (same driver, same rule code)')
    from .props import c01
    from . import term as T
    tmp = _Silent('FIXTURE', rep.tier, _tables_off())
    reach = set(fx.fns)
    fired = {}
    if any(w in which for w in ('T1', 'T2', 'T4')):
        inst = [f for f in fx.fns.values() if f.name == 'next' and f.impl_self_adt]
        ta = T.TermAnalysis(fx)
        ta.instance_paths = {f.path for f in inst}
        f1 = [x for f in inst for x in ta.analyze(f, 't1')]
        f2 = [x for f in inst for x in ta.analyze(f, 't2')]
        fired['T1'] = bool(f1)
        fired['T2'] = bool(f2)
        if 'T4' in which:
            c01.run_T4(tmp, fx, reach, ta)
            fired['T4'] = any(o.rule == 'T4' and o.status == 'violation' and 'spin' in o.key for o in tmp.obs)
    if 'T3' in which:
        comps = T.sccs(reach, fx.callgraph and fx.cg_strict)
        fired['T3'] = any(len(c) > 1 or c[0] in fx.cg_strict.get(c[0], ()) for c in comps)
    if any(w.startswith('P') for w in which):
        sys.setrecursionlimit(10000)
        from . import panic_sites as ps
        from .summaries import Summaries
        S = Summaries(fx)
        sites = []
        for p in sorted(reach):
            fn = fx.fns[p]
            ss = ps.enumerate_sites(fx, fn)
            ev = S.ev(fn)
            for s in ss:
                ps.discharge(s, ev)
            sites += ss
        opens = [s for s in sites if s.status != 'ok']
        fired['P-overflow'] = any(s.kind.startswith('Overflow(Mul') and s.fn.name == 'tainted_mul' for s in opens)
        fired['P-div'] = any(s.kind == 'DivisionByZero' and s.fn.name == 'tainted_div' for s in opens)
        fired['P-unwrap'] = any(s.kind == 'unwrap' and s.fn.name == 'tainted_unwrap' for s in opens)
    if 'N' in which:
        c01.run_N(tmp, fx, reach, floor=0)
        fired['N'] = any(o.rule == 'N' and o.status == 'violation' and 'narrow' in o.key for o in tmp.obs)
    if 'R1' in which:
        from . import reloc
        reloc.run_R1(tmp, fx, scope=lambda p: True, floor=0)
        fired['R1'] = any(o.rule == 'R1' and o.status == 'violation' for o in tmp.obs)
    if 'U0' in which:
        fired['U0'] = any(f.raw.get('unsafe_blocks') for f in fx.fns.values())
    for w in which:
        if fired.get(w):
            rep.ok('L', 'fixture|' + w, 'rule %s reports its fixture violation' % w, 'fixtures/src/lib.rs', why='fired on the deliberate violation', nontrivial=False)
        else:
            rep.cannot_decide('rule %s did not fire on its fixture (fixtures/src/lib.rs): the rule or the extractor is broken' % w)
