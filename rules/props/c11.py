"""C11 — see DESIGN.md §4."""
from ..spec import run_specs, k1_pairing, size_vs_write, extract
from ..specs_registry import SPECS

EXPLANATION = 'Per write::AttributeValue variant: form/size/write fingerprints equal the reviewed table and the size model equals the emitted bytes (bag equality); fix-ups are pushed immediately before a same-size placeholder. Forest equality after reading back is NOT decided.'

S = {s['id']: s for s in SPECS}


def run(rep, ctx):
    g = ctx.g
    from .c01 import run_N_writer
    run_N_writer(rep, g, ['write::unit::', 'write::abbrev::', 'write::str::', 'write::writer::', 'write::relocate::', 'write::section::', 'write::dwarf::', 'write::endian_vec::'])
    from ..dedup import run_F_eq
    run_F_eq(rep, g)
    run_specs(rep, ctx, 'C11')
    forms = extract(g, S['w_attr_form'])
    k1_pairing(rep, g, 'K1-attr', S['w_attr_write'], [S['attr_parse']], 'DW_FORM_', strip_opcode=False, consts_from=forms)
    rep.rule('S-attr', 'size model == emission: per write::AttributeValue variant the set of byte bags AttributeValue::size returns equals the set of bags AttributeValue::write emits')
    size_vs_write(rep, g, 'S-attr', S['w_attr_size'], S['w_attr_write'])
