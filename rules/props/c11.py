"""C11 — see DESIGN.md §4."""
from ..spec import run_specs

EXPLANATION = 'Per write::AttributeValue variant: form/size/write fingerprints equal the reviewed table and the size model equals the emitted bytes (bag equality); fix-ups are pushed immediately before a same-size placeholder. Forest equality after reading back is NOT decided.'


def run(rep, ctx):
    run_specs(rep, ctx, 'C11')
