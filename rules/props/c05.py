"""C05 — see DESIGN.md §4."""
from ..spec import run_specs
from ..guards import run_D5, run_X1

EXPLANATION = 'The pointer-encoding validator accepts only formats/applications that the decoder handles (X1 as sets over all encodings); every successful FDE lookup return is dominated by a `contains(address)` test; CIE/FDE prefix and encoded-value readers consume the reviewed field sequences. Completeness of lookups (binary search correctness) is NOT decided.'


def run(rep, ctx):
    run_specs(rep, ctx, 'C05')
    run_D5(rep, ctx.g)
    run_X1(rep, ctx.g)
