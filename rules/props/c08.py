"""C08 — see DESIGN.md §4."""
from ..spec import run_specs
from ..ranges_guard import run_D8

EXPLANATION = 'Per DW_RLE/DW_LLE kind: the raw entry decoders consume the standard operand kinds; convert_raw per-variant call sets equal the reviewed table; the only Ok(Some(range)) return of both convert_raw functions is dominated by the emptiness/tombstone guard. Resolved values are NOT decided.'


def run(rep, ctx):
    run_specs(rep, ctx, 'C08')
    run_D8(rep, ctx.g)
    from ..guards import run_S_header
    run_S_header(rep, ctx.g)
