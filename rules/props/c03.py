"""C03 — see DESIGN.md §4."""
from ..spec import run_specs

EXPLANATION = 'Per DW_FORM constant: the attribute reader, the line-table attribute reader and the attribute skipper consume the reviewed (standard) operand sequence; the advertised fixed size of a form equals the bytes the reader consumes for it; skipping and reading handle the same set of forms; name-based normalisation (Attribute::value) contains no arithmetic and no narrowing cast. Decoded values are NOT decided.'


def run(rep, ctx):
    run_specs(rep, ctx, 'C03')
    from ..guards import run_X_size
    run_X_size(rep, ctx.g)
