"""C13 — see DESIGN.md §4."""
from ..spec import run_specs, k1_pairing, size_vs_write, extract
from ..specs_registry import SPECS

EXPLANATION = "Per write::LineInstruction variant the emitted operand sequence equals the reviewed table and pairs with the reader's decoder for the same opcode; extended-opcode lengths equal the bytes that follow. Opcode selection arithmetic is NOT decided."

S = {s['id']: s for s in SPECS}


def run(rep, ctx):
    g = ctx.g
    from .c01 import run_N_writer
    run_N_writer(rep, g, ['write::line::'])
    run_specs(rep, ctx, 'C13')
    k1_pairing(rep, g, 'K1-line', S['w_line_instr'], [S['line_instr_parse_std'], S['line_instr_parse_ext']], 'DW_LN',
               strip_prefix=('DW_LNE_', ['B1', 'ULEB', 'B1']), b1_is_uleb_for=('SetDiscriminator',))
