"""C13 — see DESIGN.md §4."""
from ..spec import run_specs

EXPLANATION = "Per write::LineInstruction variant the emitted operand sequence equals the reviewed table and pairs with the reader's decoder for the same opcode; extended-opcode lengths equal the bytes that follow. Opcode selection arithmetic is NOT decided."


def run(rep, ctx):
    run_specs(rep, ctx, 'C13')
