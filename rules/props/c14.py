"""C14 — see DESIGN.md §4."""
from ..spec import run_specs

EXPLANATION = "Per write::CallFrameInstruction variant the emitted operand sequences equal the reviewed table and pair with the reader's decoder; factored writes are preceded by the exactness checks with an error exit. Equality of evaluated rows is NOT decided."


def run(rep, ctx):
    run_specs(rep, ctx, 'C14')
