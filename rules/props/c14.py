"""C14 — see DESIGN.md §4."""
from ..spec import run_specs, k1_pairing, size_vs_write, extract
from ..specs_registry import SPECS

EXPLANATION = "Per write::CallFrameInstruction variant the emitted operand sequences equal the reviewed table and pair with the reader's decoder; factored writes are preceded by the exactness checks with an error exit. Equality of evaluated rows is NOT decided."

S = {s['id']: s for s in SPECS}


def run(rep, ctx):
    g = ctx.g
    from .c01 import run_N_writer
    run_N_writer(rep, g, ['write::cfi::'])
    from ..guards import run_D9
    run_D9(rep, g)
    run_specs(rep, ctx, 'C14')
    k1_pairing(rep, g, 'K1-cfa', S['w_cfi_instr'], [S['cfi_instr_parse']], 'DW_CFA_')
    # K1-ehpe: the writer's encoded-pointer codec agrees with the reader's per DW_EH_PE format
    rep.rule('K1-ehpe', 'per DW_EH_PE_* format constant: the operand Writer::write_eh_pointer_data emits equals the operand read::cfi::parse_encoded_value '
             'consumes (absptr: address-sized on both sides); a format handled on one side only is a violation')
    wspec = dict(id='w_eh_pe', kind='consteff', fn='write::writer::Writer::write_eh_pointer_data', const_ty='constants::DwEhPe')
    wrows = extract(g, wspec)
    rrows = extract(g, S['eh_pe_value'])
    fnw = g.fn(wspec['fn'])
    norm = lambda seqs: sorted(sorted('ADDR' if a in ('BN', 'ADDR') else a for a in q) for q in seqs)
    for c in sorted(set(wrows) | set(rrows)):
        key = 'eh_pe|%s' % c
        if c not in wrows or c not in rrows:
            rep.bad('K1-ehpe', key, '%s is handled by %s only' % (c, 'the reader' if c not in wrows else 'the writer'), fnw.loc())
        else:
            rep.check('K1-ehpe', key, norm(wrows[c]) == norm(rrows[c]), 'writer %s, reader %s' % (wrows[c], rrows[c]), fnw.loc(), why='same operand kind')
    rep.floor('K1-ehpe', 'pointer formats paired', len(set(wrows) & set(rrows)), 9)
