"""C14 — see DESIGN.md §4."""
from ..spec import run_specs, k1_pairing, size_vs_write, extract
from ..specs_registry import SPECS

EXPLANATION = "Per write::CallFrameInstruction variant the emitted operand sequences equal the reviewed table and pair with the reader's decoder; factored writes are preceded by the exactness checks with an error exit. Equality of evaluated rows is NOT decided."

S = {s['id']: s for s in SPECS}


def run(rep, ctx):
    g = ctx.g
    from .c01 import run_N_writer
    run_N_writer(rep, g, ['write::cfi::'])
    from ..guards import run_D9
    run_D9(rep, g)
    run_specs(rep, ctx, 'C14')
    k1_pairing(rep, g, 'K1-cfa', S['w_cfi_instr'], [S['cfi_instr_parse']], 'DW_CFA_')
