"""C06 — see DESIGN.md §4."""
from ..spec import run_specs

EXPLANATION = 'Per DW_CFA instruction: the decoder consumes the standard operand kinds; UnwindTable::evaluate stores/call-sets per arm equal the reviewed table (factoring by the data/code alignment factor exactly in the arms the standard names, context-restriction error exits present, StackFull/TooManyRegisterRules mapping). Row values over all instruction sequences are NOT decided.'


def run(rep, ctx):
    run_specs(rep, ctx, 'C06')
    from ..guards import run_D10
    run_D10(rep, ctx.g)
