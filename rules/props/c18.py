"""C18 — see DESIGN.md §4."""
from ..spec import run_specs
from .. import reloc

EXPLANATION = 'RelocateReader overrides exactly the relocatable primitives and takes the offset before the inner read; RelocateWriter overrides exactly the relocatable writers; offset newtypes are built from relocatable reads. Byte identity of relocated output is NOT decided.'


def run(rep, ctx):
    g = ctx.g
    run_specs(rep, ctx, 'C18')
    reloc.run_relocate_reader(rep, g)
    reloc.run_relocate_writer(rep, g)
    reloc.run_R1(rep, g)
    from ..liveness import run_liveness
    if not getattr(ctx, 'variant', None):
        run_liveness(rep, ctx.fx, ['R1'])
