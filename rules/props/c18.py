"""C18 — see DESIGN.md §4."""
from ..spec import run_specs

EXPLANATION = 'RelocateReader overrides exactly the relocatable primitives and takes the offset before the inner read; RelocateWriter overrides exactly the relocatable writers; offset newtypes are built from relocatable reads. Byte identity of relocated output is NOT decided.'


def run(rep, ctx):
    run_specs(rep, ctx, 'C18')
