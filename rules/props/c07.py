"""C07 — see DESIGN.md §4."""
from ..spec import run_specs
from ..guards import run_D7

EXPLANATION = "Per DW_OP opcode: Operation::parse consumes the standard operand kinds; per Operation variant the evaluator's arm calls the reviewed set of stack/value operations and error exits; the iteration limit is incremented and tested in every cycle that evaluates an operation; branch targets come only from the bounds-checked compute_pc; each Waiting state pairs with its resume method. Numeric results are NOT decided."


def run(rep, ctx):
    run_specs(rep, ctx, 'C07')
    run_D7(rep, ctx.g)
