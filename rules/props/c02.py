"""C02 — see DESIGN.md §4."""
from ..spec import run_specs
from ..depth import run_D2

EXPLANATION = 'Structural necessary conditions for the DIE forest: the unit-header reader consumes exactly the reviewed field sequence per version/unit type; EntriesRaw.depth is stored only by the four reviewed shapes; end_offset is fixed at construction and the raw reader is only ever advanced; duplicate abbreviation codes reach the error exit. Forest equality over generated inputs is NOT decided.'


def run(rep, ctx):
    run_specs(rep, ctx, 'C02')
    run_D2(rep, ctx.g)
