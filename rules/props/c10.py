"""C10 — see DESIGN.md §4."""
from ..spec import run_specs
from ..unsafe_audit import run_U
from ..reloc import run_relocate_reader
from ..witness import run_witnesses
from ..wiring import run_F_lookup

EXPLANATION = 'Unsafe audit of the shared-buffer reader (private fields, stores only in new/skip/truncate behind asserts, from_raw_parts lengths), delegation shape of RelocateReader, Reader trait parametricity premise, and compile-fail witnesses (EndianRcSlice !Send, sub-reader cannot outlive buffer, private range field). Observational equality of reader kinds is NOT decided.'


def run_reader_premise(rep, g):
    rep.rule('D-reader-trait', 'parametricity premise: trait Reader has no associated function that produces Self without a self receiver, '
             'so generic parsing code can obtain a reader only by clone/split of one it was given')
    tr = g.traits.get('read::reader::Reader')
    bad = [it['name'] for it in tr['items'] if it['kind'] == 'Fn' and not it['has_self'] and 'Self' in it['sig'].split('->')[-1]]
    rep.check('D-reader-trait', 'no-constructor', not bad, 'constructor-like trait items: %s' % bad, why='no item returns Self without a receiver')
    rep.floor('D-reader-trait', 'items of trait Reader', len(tr['items']), 40)


def run(rep, ctx):
    g = ctx.g
    run_specs(rep, ctx, 'C10')
    run_U(rep, g)
    run_relocate_reader(rep, g)
    run_reader_premise(rep, g)
    run_F_lookup(rep, g)
    if not getattr(ctx, 'variant', None):
        run_witnesses(rep, ['RcReaderIsNotSend', 'SubReaderCannotOutliveBuffer', 'RangeFieldIsPrivate', 'ReaderHasNoConstructor'])
