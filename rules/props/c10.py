"""C10 — see DESIGN.md §4."""
from ..spec import run_specs

EXPLANATION = 'Unsafe audit of the shared-buffer reader (private fields, stores only in new/skip/truncate behind asserts, from_raw_parts lengths), delegation shape of RelocateReader, Reader trait parametricity premise, and compile-fail witnesses (EndianRcSlice !Send, sub-reader cannot outlive buffer, private range field). Observational equality of reader kinds is NOT decided.'


def run(rep, ctx):
    run_specs(rep, ctx, 'C10')
