"""C15 — see DESIGN.md §4."""
from ..spec import run_specs, k1_pairing, size_vs_write, extract
from ..specs_registry import SPECS

EXPLANATION = 'Per write::Operation variant: emitted sequences equal the reviewed table, the size model equals the emitted bytes (bag equality), branch displacement and length prefixes come from the same size() calls. Evaluation equality is NOT decided.'

S = {s['id']: s for s in SPECS}


def run(rep, ctx):
    g = ctx.g
    from .c01 import run_N_writer
    run_N_writer(rep, g, ['write::op::'])
    run_specs(rep, ctx, 'C15')
    k1_pairing(rep, g, 'K1-op', S['w_op_write'], [S['op_parse']], 'DW_OP_', b1_is_uleb_for=('Convert', 'Reinterpret'))
    rep.rule('S-op', 'size model == emission: per write::Operation variant the set of byte bags Operation::size returns (plus the opcode byte) equals what Operation::write emits')
    size_vs_write(rep, g, 'S-op', S['w_op_size'], S['w_op_write'])
