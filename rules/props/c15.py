"""C15 — see DESIGN.md §4."""
from ..spec import run_specs

EXPLANATION = 'Per write::Operation variant: emitted sequences equal the reviewed table, the size model equals the emitted bytes (bag equality), branch displacement and length prefixes come from the same size() calls. Evaluation equality is NOT decided.'


def run(rep, ctx):
    run_specs(rep, ctx, 'C15')
