"""C16 — see DESIGN.md §4."""
from ..spec import run_specs

EXPLANATION = 'Per write Range/Location variant and encoding: emitted sequences equal the reviewed table; validity error exits present on the stated edges. Value equality after reading back is NOT decided.'


def run(rep, ctx):
    run_specs(rep, ctx, 'C16')
