"""C16 — see DESIGN.md §4."""
from ..spec import run_specs, k1_pairing, size_vs_write, extract
from ..specs_registry import SPECS

EXPLANATION = 'Per write Range/Location variant and encoding: emitted sequences equal the reviewed table; validity error exits present on the stated edges. Value equality after reading back is NOT decided.'

S = {s['id']: s for s in SPECS}


def run(rep, ctx):
    g = ctx.g
    from .c01 import run_N_writer
    run_N_writer(rep, g, ['write::range::', 'write::loc::'])
    run_specs(rep, ctx, 'C16')
    k1_pairing(rep, g, 'K1-rle', S['w_rnglists'], [S['rle_parse']], 'DW_RLE_')
    k1_pairing(rep, g, 'K1-lle', S['w_loclists'], [S['lle_parse']], 'DW_LLE_')
