"""C01 — untrusted DWARF never panics, aborts, overflows the stack or hangs.
Rule families T (termination/fusing), P (panic sites), N (narrowing), X1, U — see DESIGN.md §4."""
from collections import Counter

from .. import term
from ..roots import read_roots

EXPLANATION = (
    'Static analysis of the MIR of every function reachable from the public reading / lookup / unwinding / '
    'evaluation / conversion entry points. T1: every return of every lazy-iterator step method has consumed input, '
    'emptied its reader, observed the end, or delegated to an iterator that did (so a caller that ignores errors '
    'still finishes in input-bounded steps). T2: iterators documented as fused reach `Reader::empty` on every path '
    'that returns Err. T3: the read-reachable call graph has no recursion. P/N: every panic-capable site '
    '(overflow/div/bounds asserts, trait arithmetic on offsets, unwrap/expect/panic!, narrowing casts) reachable '
    'from the roots is discharged by constant/interval reasoning, by a dominating guard, or by an exact-key '
    'reviewed entry; anything else is a violation. Value-level behaviour on concrete inputs is NOT decided.')


def key_counter():
    c = Counter()

    def k(base):
        c[base] += 1
        return base if c[base] == 1 else '%s#%d' % (base, c[base])
    return k


def run_T(rep, g, fx=None, prop='C01'):
    rep.rule('T1', 'progress-or-stop: every return of an iterator step method has consumed >=1 byte, emptied the '
             'reader, observed is_empty(), returned the end marker, or delegated to another instance')
    rep.rule('T2', 'fused: for methods whose rustdoc promises "all subsequent calls return Ok(None)" every path '
             'returning Err passes through Reader::empty on the iterator\'s reader')
    rep.rule('T3', 'no recursion among read-reachable functions (Tarjan SCC over the resolved call graph)')
    inst = term.iterator_instances(g)
    rep.floor('T1', 'iterator step methods found by query', len(inst), 40)
    assume = set()
    for _round in range(5):
        ta = term.TermAnalysis(g)
        ta.instance_paths = {f.path for f in inst}
        ta.assume_t1 = set(assume)
        results = {}
        new_assume = set()
        for f in inst:
            fails = ta.analyze(f, 't1')
            keyed = []
            kc = key_counter()
            kc_nf = key_counter()
            for b, reason in sorted(fails):
                kind = 'err' if 'Err' in reason else 'ok'
                key = kc('%s|%s|%s' % (f.path, kind, term.residual_origin(f, b)))
                nfk = kc_nf('%s|%s|%s' % (f.path, kind, _nf_origin(f, b)))
                line = f.term(b).get('line') or (f.stmts(b)[-1][3] if f.stmts(b) else f.line)
                keyed.append((key, reason, line, nfk))
            results[f.path] = keyed
            if keyed and all(rep.tables.reviewed_entry('T1', k, nfk) for k, _, _, nfk in keyed):
                new_assume.add(f.path)
        if new_assume == assume:
            break
        assume = new_assume
    ta.assume_t1 = set(assume)
    for f in inst:
        keyed = results[f.path]
        if not keyed:
            rep.ok('T1', f.path, 'all returns progress, empty, observe end or delegate', f.loc(),
                   why='path-sensitive dataflow over %d blocks' % len(f.blocks))
        for key, reason, line, nfk in keyed:
            rep.bad('T1', key, reason, f.loc(line), nf=nfk)
    # T2: documented-fused by rustdoc query + the anchors the property names
    doc_fused = [f for f in g.fns.values() if f.kind == 'AssocFn' and 'all subsequent calls' in f.doc.replace('\n', ' ')
                 and 'Ok(None)' in f.doc]
    named = ['read::cfi::CfiEntriesIter', 'read::cfi::CallFrameInstructionIter', 'read::op::OperationIter',
             'read::line::LineInstructions', 'read::rnglists::RawRngListIter', 'read::loclists::RawLocListIter',
             'read::unit::EntriesCursor', 'read::lookup::LookupEntryIter', 'read::names::NameEntryIter',
             'read::unit::DebugInfoUnitHeadersIter', 'read::unit::DebugTypesUnitHeadersIter',
             'read::aranges::ArangeHeaderIter', 'read::addr::AddrHeaderIter', 'read::names::NameIndexHeaderIter']
    named_fns = []
    for f in inst:
        if f.impl_self_adt in named and f.name in ('next', 'next_entry', 'next_instruction'):
            named_fns.append(f)
    t2 = {f.path: f for f in doc_fused + named_fns}
    rep.floor('T2', 'methods documented as fused (rustdoc query)', len(doc_fused), 6)
    rep.floor('T2', 'fused instances (doc query + property anchors)', len(t2), 18)
    for p, f in sorted(t2.items()):
        fails = ta.analyze(f, 't2')
        if not fails:
            rep.ok('T2', p, 'every Err return is preceded by Reader::empty', f.loc(), why='dataflow E-bit')
        else:
            kc = key_counter()
            kc_nf = key_counter()
            for b, reason in sorted(fails):
                key = kc('%s|%s' % (p, term.residual_origin(f, b)))
                nfk = kc_nf('%s|%s' % (p, _nf_origin(f, b)))
                line = f.term(b).get('line') or (f.stmts(b)[-1][3] if f.stmts(b) else f.line)
                rep.bad('T2', key, 'documented as fused, but ' + reason, f.loc(line), nf=nfk)
    return inst, ta


def _nf_origin(f, b):
    """term.residual_origin rendered without local names / temporary numbers"""
    f.nf = True
    try:
        return term.residual_origin(f, b)
    finally:
        f.nf = False


def run_T3(rep, g):
    roots = read_roots(g)
    reach, parent = g.reachable(roots)
    rep.floor('T3', 'read roots', len(roots), 300)
    rep.floor('T3', 'read-reachable functions', len(reach), 1200)
    cg = g.callgraph
    cg = g.cg_strict   # calls on a bare type parameter recurse only through type nesting (statically bounded)
    comps = term.sccs(reach, cg)
    ncyc = 0
    for comp in comps:
        cyc = len(comp) > 1 or comp[0] in cg.get(comp[0], ())
        if not cyc:
            continue
        ncyc += 1
        key = ' <-> '.join(sorted(comp))
        f = g.fns[sorted(comp)[0]]
        chain = []
        x = sorted(comp)[0]
        while x in parent and len(chain) < 12:
            x = parent[x]
            chain.append(x)
        rep.note('T3 %s reached via %s' % (key, ' <- '.join(chain)))
        rep.bad('T3', key, 'recursion reachable from a reading entry point: depth is not bounded by a constant', f.loc())
    rep.ok('T3', 'acyclic-remainder', '%d read-reachable functions in %d SCCs, %d cyclic' % (len(reach), len(comps), ncyc),
           why='Tarjan SCC', nontrivial=False)
    return reach


def run(rep, ctx):
    g = ctx.g
    run_T(rep, g)
    run_T3(rep, g)


# ------------------------------------------------------------------------------------------
# P / N

def _comparisons(g, fn):
    """every comparison of the body as (named lhs, named rhs, name-free 'lhs ~ rhs' with the sides ordered)"""
    from ..ranges import Eval, CMP_OPS
    ev = Eval(fn)
    out = []

    def nf_pair(a_op, b_op):
        fn.nf = True
        try:
            x, y = fn.fmt_op(a_op, 5), fn.fmt_op(b_op, 5)
        finally:
            fn.nf = False
        return ' ~ '.join(sorted([x, y]))
    for bi in sorted(fn.reach):
        for st in fn.stmts(bi):
            if st[0] == 'a' and st[2][0] == 'bin' and st[2][1] in CMP_OPS:
                out.append((ev.canon(st[2][2]), ev.canon(st[2][3]), nf_pair(st[2][2], st[2][3])))
        t = fn.term(bi)
        if t['k'] == 'call' and t['f'].get('name') in ('lt', 'le', 'gt', 'ge', 'eq', 'ne') and len(t['a']) == 2:
            a = ev._deref_arg(t['a'][0])
            b = ev._deref_arg(t['a'][1])
            if a and b:
                out.append((ev.canon(a), ev.canon(b), nf_pair(a, b)))
        if t['k'] == 'switch':
            # a switch directly on an integer compares it with each listed value
            fn.nf = True
            try:
                dn = fn.fmt_op(t['d'], 5)
            finally:
                fn.nf = False
            for v, _ in t['v']:
                out.append((ev.canon(t['d']), 'const:%s' % v, ' ~ '.join(sorted([dn, str(v)]))))
    return out


def _named_match(cmps, want_a, want_b):
    return [c for c in cmps if (want_a in c[0] and want_b in c[1]) or (want_a in c[1] and want_b in c[0])]


def requires_hold(g, entry):
    """A reviewed entry may name the guard it relies on: [{"fn": path, "cmp": [lhs_substr, rhs_substr]}].
    The guard must still be present: a comparison between the two named expressions, or — when a local was renamed —
    at least as many comparisons with the guard's name-free form (`cmp_nf`, `count`, recorded by tools/annotate_requires.py
    on the pinned tree) as there were."""
    for rq in entry.get('requires', []):
        fn = g.fns.get(rq['fn'])
        if fn is None:
            return False, 'function %s is gone' % rq['fn']
        cmps = _comparisons(g, fn)
        want_a, want_b = rq['cmp']
        if _named_match(cmps, want_a, want_b):
            continue
        if rq.get('cmp_nf') and sum(1 for c in cmps if c[2] in rq['cmp_nf']) >= rq.get('count', 1):
            continue
        return False, 'the guard `%s ? %s` that the reviewed reason relies on is no longer present in %s' % (
            want_a, want_b, rq['fn'])
    return True, ''


def run_P(rep, g, reach):
    import sys
    sys.setrecursionlimit(10000)
    from .. import panic_sites as ps
    from ..summaries import Summaries
    rep.rule('P', 'panic-site audit: every Assert terminator (overflow, div/rem by zero, bounds), generic-offset '
             'arithmetic call, unwrap/expect, panic!/assert!/unreachable!, slice index/copy/split and allocation-size '
             'site in read-reachable code is (a) proven safe by interval + dominating-guard abstract interpretation, '
             '(b) matched by an exact-key reviewed entry whose named guard is still present, or (c) a known finding')
    S = Summaries(g)
    allsites = []
    nfn = 0
    for p in sorted(reach):
        fn = g.fns[p]
        sites = ps.enumerate_sites(g, fn)
        if not sites:
            continue
        nfn += 1
        ev = S.ev(fn)
        for s in sites:
            ps.discharge(s, ev)
        allsites += sites
    ps.assign_keys(allsites)
    rep.floor('P', 'panic-capable sites in read-reachable code', len(allsites), 300)
    for s in allsites:
        loc = s.fn.loc(s.line)
        if s.status == 'ok':
            rep.ok('P', s.key, s.kind, loc, why=s.why)
            continue
        entry = rep.tables.reviewed_entry('P', s.key, s.nfkey)
        if entry is not None and entry.get('requires'):
            ok, why = requires_hold(g, entry)
            if not ok:
                rep.add_raw('P', s.key, 'violation', '%s: %s' % (s.kind, why), loc)
                continue
        rep.bad('P', s.key, '%s at `%s` is not proven safe (operands can be chosen by the input or the caller)'
                % (s.kind, s.expr), loc, nf=s.nfkey)
    rep.note('P analysed %d panic-capable sites in %d of %d read-reachable functions' % (len(allsites), nfn, len(reach)))
    return allsites


def run(rep, ctx):   # noqa: F811  (final definition)
    g = ctx.g
    inst, ta = run_T(rep, g)
    reach = run_T3(rep, g)
    run_T4(rep, g, reach, ta)
    run_P(rep, g, reach)
    run_N(rep, g, reach)
    from ..unsafe_audit import run_U
    run_U(rep, g)
    from ..liveness import run_liveness
    if not getattr(ctx, 'variant', None):
        run_liveness(rep, ctx.fx, ['T1', 'T2', 'T3', 'T4', 'P-overflow', 'P-div', 'P-unwrap', 'N', 'U0'])


def run_N(rep, g, reach, scope_name='read-reachable', floor=75):
    """N: narrowing / sign-changing integer casts must be value-preserving by interval + guard
    reasoning, a cast-and-compare-back idiom, or an exact-key reviewed entry."""
    from .. import panic_sites as ps
    from ..summaries import Summaries
    from ..ranges import type_range
    rep.rule('N', 'narrowing-cast discipline: every IntToInt cast that can lose bits or change sign in %s code is '
             'value-preserving for the operand range proven at that point, is compared back against its source, or is reviewed' % scope_name)
    S = Summaries(g)
    from collections import Counter
    cnt = Counter()
    cnt_nf = Counter()
    n = 0
    for p in sorted(reach):
        fn = g.fns[p]
        casts = ps.narrowing_casts(g, fn)
        if not casts:
            continue
        ev = S.ev(fn)
        for bi, st, sty, tty in casts:
            n += 1
            rv = st[2]
            src = ev.val(rv[2], bi)
            tr = type_range(tty)
            expr = '%s as %s' % (fn.fmt_op(rv[2], 5), tty)
            base = '%s | cast %s->%s | %s' % (fn.path, sty, tty, expr)
            cnt[base] += 1
            key = base if cnt[base] == 1 else '%s #%d' % (base, cnt[base])
            fn.nf = True
            try:
                nfb = '%s | cast %s->%s | %s as %s' % (fn.path, sty, tty, fn.fmt_op(rv[2], 5), tty)
            finally:
                fn.nf = False
            cnt_nf[nfb] += 1
            nfkey = nfb if cnt_nf[nfb] == 1 else '%s #%d' % (nfb, cnt_nf[nfb])
            loc = fn.loc(st[3])
            if src is not None and src[0] >= tr[0] and src[1] <= tr[1]:
                rep.ok('N', key, 'value-preserving: operand in %s' % (src,), loc, why='interval')
                continue
            if _compared_back(fn, st, sty):
                rep.ok('N', key, 'cast result is converted back and compared with its source', loc, why='cast-and-compare-back idiom')
                continue
            rep.bad('N', key, 'cast %s -> %s of `%s` may truncate or change sign (operand range %s)' % (sty, tty, fn.fmt_op(rv[2], 5), src), loc, nf=nfkey)
    rep.floor('N', 'narrowing casts analysed', n, floor)
    return n


def _compared_back(fn, st, sty):
    """`let y = x as T; if U::from(y) == x` / `y as U == x` shape: the narrowed local is widened
    again and the result feeds an Eq/Ne comparison."""
    dst = st[1]
    if len(dst) != 1:
        return False
    y0 = dst[0]
    aliases = {y0}
    changed = True
    while changed:
        changed = False
        for bi in fn.reach:
            for s2 in fn.stmts(bi):
                if s2[0] == 'a' and len(s2[1]) == 1 and s2[2][0] == 'use' and s2[2][1][0] in ('c', 'm') \
                        and len(s2[2][1][1]) == 1 and s2[2][1][1][0] in aliases and s2[1][0] not in aliases:
                    aliases.add(s2[1][0])
                    changed = True
    widened = set()
    for y in aliases:
      for bi in fn.reach:
          for s2 in fn.stmts(bi):
              if s2[0] == 'a' and s2[2][0] == 'cast' and s2[2][2][0] in ('c', 'm') and s2[2][2][1] == [y]:
                  widened.add(s2[1][0])
          t = fn.term(bi)
          if t['k'] == 'call' and t['f'].get('name') in ('from', 'into') and t['a'] and t['a'][0][0] in ('c', 'm') and t['a'][0][1] == [y]:
              widened.add(t['d'][0])
    # copies of y
    for bi in fn.reach:
        for s2 in fn.stmts(bi):
            if s2[0] == 'a' and s2[2][0] == 'bin' and s2[2][1] in ('Eq', 'Ne'):
                for o in (s2[2][2], s2[2][3]):
                    if o[0] in ('c', 'm') and len(o[1]) == 1:
                        l = o[1][0]
                        if l in widened:
                            return True
                        sd = fn.single_def(l)
                        if sd and sd[1] != 'term' and sd[2][0] == 'use' and sd[2][1][0] in ('c', 'm') and sd[2][1][1] and sd[2][1][1][0] in widened:
                            return True
    return False


def run_T4(rep, g, reach, ta):
    """T4: every natural loop in read-reachable code is driven by a bounded std iterator, consumes
    input from a reader that persists across iterations on every cycle, drains a container, or is
    reviewed."""
    from .. import term as T
    rep.rule('T4', 'loop progress: each natural loop in read-reachable code is (a) a for-loop over a bounded std iterator, '
             '(b) a consuming loop (every cycle passes a call that consumes >= 1 byte from a reader defined outside the loop, '
             'or delegates to an iterator instance), (c) a container-draining loop, or has an exact-key reviewed reason')
    n = 0
    from collections import Counter
    kc = Counter()
    for p in sorted(reach):
        fn = g.fns[p]
        if len(fn.blocks) < 3:
            continue
        loops = T.natural_loops(fn)
        for h, body in sorted(loops.items()):
            n += 1
            cls, why = classify_loop(g, fn, h, body, ta)
            base = '%s|loop' % fn.path
            kc[base] += 1
            key = base if kc[base] == 1 else '%s#%d' % (base, kc[base])
            line = fn.term(h).get('line') or (fn.stmts(h)[0][3] if fn.stmts(h) else fn.line)
            if cls:
                rep.ok('T4', key, '%s loop' % cls, fn.loc(line), why=why)
            else:
                rep.bad('T4', key, 'loop is not driven by a bounded iterator, does not consume input on every cycle and does not drain a container: %s' % why, fn.loc(line))
    rep.floor('T4', 'natural loops classified', n, 60)
    return n


UNBOUNDED_ITERS = ('RangeFrom', 'Repeat', 'Cycle', 'Successors', 'FromFn', 'RepeatWith')
DRAIN_CALLS = {'pop', 'pop_front', 'pop_back', 'swap_remove', 'remove', 'take'}


def classify_loop(g, fn, h, body, ta):
    from .. import term as T
    progress_blocks = set()
    why = []
    defined_in_loop = set()
    for b in body:
        for st in fn.stmts(b):
            if st[0] == 'a' and len(st[1]) == 1:
                defined_in_loop.add(st[1][0])
        t = fn.term(b)
        if t['k'] == 'call' and len(t['d']) == 1:
            defined_in_loop.add(t['d'][0])
    for b in body:
        t = fn.term(b)
        if t['k'] != 'call':
            continue
        f = t['f']
        if 'ptr' in f:
            continue
        name = f.get('name')
        path = f.get('path', '')
        res = f.get('res') or ''
        # (a) iterator-driven
        if path == 'core::iter::Iterator::next':
            if res and (res.startswith('<core::') or res.startswith('core::') or res.startswith('<alloc::') or
                        res.startswith('alloc::') or res.startswith('<hashbrown') or res.startswith('<indexmap')):
                if not any(u in res for u in UNBOUNDED_ITERS) and not any(u in (f.get('self') or '') for u in UNBOUNDED_ITERS):
                    # the iterator object must live outside the loop (not re-created per iteration)
                    recv = _recv_root(fn, t['a'][0]) if t['a'] else None
                    if recv is not None and recv not in _created_in_loop(fn, body):
                        progress_blocks.add(b)
                        why.append('std iterator %s' % res.split(' as ')[0][:60])
                        continue
            tg = g.callee_targets(f)
            if tg and all(x in g.fns and g.fns[x].impl_trait == 'core::iter::Iterator' for x in tg):
                recv = _recv_root(fn, t['a'][0]) if t['a'] else None
                if recv is not None and recv not in _created_in_loop(fn, body):
                    progress_blocks.add(b)
                    why.append('in-crate Iterator %s' % tg[0][:60])
                    continue
        # (b) consuming call on a persistent reader
        if f.get('trait') == 'read::reader::Reader' and name in T.CONSUME_ALWAYS:
            recv = _recv_root(fn, t['a'][0]) if t['a'] else None
            if recv is not None and recv not in _created_in_loop(fn, body):
                progress_blocks.add(b)
                why.append('consumes via %s' % name)
                continue
        tg = g.callee_targets(f)
        if tg and t['a']:
            recv = _recv_root(fn, t['a'][0])
            persistent = recv is not None and recv not in _created_in_loop(fn, body)
            if persistent and all(ta.summ('tp', x) or ta.summ('tps', x) for x in tg):
                progress_blocks.add(b)
                why.append('callee %s consumes on Ok' % name)
                continue
            if persistent and all(x in ta.instance_paths for x in tg):
                progress_blocks.add(b)
                why.append('delegates to iterator instance %s' % name)
                continue
        # (c) draining
        if name in DRAIN_CALLS and (path.startswith('alloc::') or path.startswith('core::') or 'ArrayVec' in path or 'Vec' in (f.get('self') or '')):
            progress_blocks.add(b)
            why.append('drains via %s' % name)
    if not progress_blocks:
        return None, 'no progress call in the loop body'
    # must-pass-through: is there a cycle through the header avoiding all progress blocks?
    if h in progress_blocks:
        return _cls(why), '; '.join(sorted(set(why)))
    seen = set()
    st = [s for s in fn.succ[h] if s in body and s not in progress_blocks]
    while st:
        x = st.pop()
        if x == h:
            return None, 'a cycle avoids every progress call (%s)' % '; '.join(sorted(set(why)))
        if x in seen:
            continue
        seen.add(x)
        for s in fn.succ[x]:
            if s in body and s not in progress_blocks:
                st.append(s)
    return _cls(why), '; '.join(sorted(set(why)))


def _cls(why):
    w = ' '.join(why)
    if 'iterator' in w.lower() and 'consumes' not in w:
        return 'iterator-driven'
    if 'drains' in w and 'consumes' not in w:
        return 'draining'
    return 'consuming'


def _recv_root(fn, op, depth=8):
    """base local of the place a receiver reference points into"""
    if op[0] not in ('c', 'm'):
        return None
    pl = op[1]
    base = pl[0]
    for _ in range(depth):
        if fn.lname(base) is not None or base <= fn.argc:
            return base
        sd = fn.single_def(base)
        if sd is None or sd[1] == 'term':
            return base
        rv = sd[2]
        if rv[0] in ('ref', 'ptr', 'cfd'):
            base = rv[1][0]
        elif rv[0] == 'use' and rv[1][0] in ('c', 'm'):
            base = rv[1][1][0]
        else:
            return base
    return base


def _created_in_loop(fn, body):
    """named locals (or temps) that receive a fresh value from a call / aggregate inside the loop"""
    out = set()
    for b in body:
        for st in fn.stmts(b):
            if st[0] == 'a' and len(st[1]) == 1 and st[2][0] in ('agg',):
                out.add(st[1][0])
        t = fn.term(b)
        if t['k'] == 'call' and len(t['d']) == 1:
            nm = t['f'].get('name')
            if nm in ('clone', 'into_iter', 'iter', 'iter_mut', 'new', 'default', 'entries', 'split', 'range', 'range_from'):
                out.add(t['d'][0])
    # propagate through plain moves
    changed = True
    while changed:
        changed = False
        for b in body:
            for st in fn.stmts(b):
                if st[0] == 'a' and len(st[1]) == 1 and st[2][0] == 'use' and st[2][1][0] in ('c', 'm') \
                        and st[2][1][1][0] in out and st[1][0] not in out:
                    out.add(st[1][0])
                    changed = True
    return out


_MAIN_READ_REACH = None


def run_N_writer(rep, g, prefixes, floor=1):
    """N over the writer's own serialisation code: a width chosen for a value (`delta as u8`, `offset as u16`) must be
    proven to hold it by the guard that selected that width. Functions reachable from the converters are audited in C01/C12."""
    from ..roots import read_roots
    reach, _ = g.reachable(read_roots(g))
    # feature-set variants without the converters (`write` alone) must not pull the convert-reachable writer functions into
    # this scope: they are audited (and their findings recorded) where conversion reaches them, i.e. in the main configuration
    global _MAIN_READ_REACH
    if _MAIN_READ_REACH is None:
        _MAIN_READ_REACH = set(reach)
    reach = set(reach) | _MAIN_READ_REACH
    scope = {p for p in g.fns if any(p.startswith(x) or p.startswith('<' + x) for x in prefixes) and '::convert::' not in p and p not in reach}
    return run_N(rep, g, scope, scope_name='writer (%s)' % ', '.join(prefixes), floor=floor)
