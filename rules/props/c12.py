"""C12 — see DESIGN.md §4."""
from ..spec import run_specs

EXPLANATION = 'Converters name every source variant (no reachable wildcard), their per-variant call/error sets equal the reviewed tables; no unchecked narrowing of read-derived values in convert-reachable code (shared with C01 known findings). Semantic equality of input and output is NOT decided.'


def run(rep, ctx):
    run_specs(rep, ctx, 'C12')
