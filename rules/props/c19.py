"""C19 — see DESIGN.md §4."""
from ..spec import run_specs, extract
from ..specs_registry import SPECS

EXPLANATION = ("Edge-kind agreement: the attribute/operation variants for which conversion creates an entry reference are a subset of those "
               "the filter follows (a reference the filter does not follow leaves the output with a dangling reference or makes the conversion fail); "
               "per-variant fingerprints of the filter's edge collectors equal the reviewed tables. Closure/minimality over all graphs is NOT decided.")

REF_CONVERTERS = {'convert_unit_ref', 'convert_debug_info_ref'}


def _worklist_rescans(g, fn):
    """the function scans (`operations(..)`) what it pops from a Vec of expressions, i.e. a pushed nested expression is scanned too"""
    from .. import ctl as CT
    from ..arms import ArmSummarizer
    rows = CT.flow_fingerprint(fn, ArmSummarizer(g))
    return any(r.startswith('operations(') and 'pop()' in r for r in rows)


def run_edge_agreement(rep, g):
    rep.rule('X-edges', 'edge-kind agreement: every read::Operation / read::AttributeValue variant whose conversion calls '
             'convert_unit_ref / convert_debug_info_ref (i.e. produces a reference to an entry) is followed by the filter '
             '(its arm in add_expression_refs / add_attribute_refs pushes a dependency)')
    S = {s['id']: s for s in SPECS}
    conv = extract(g, S['convert_expression'])
    filt = extract(g, S['filter_expr_refs'])
    fn = g.fn(S['filter_expr_refs']['fn'])
    n = 0
    for v in sorted(conv):
        calls = set(conv[v]['calls'])
        if not (calls & REF_CONVERTERS):
            continue
        n += 1
        f = filt.get(v, {'calls': []})
        follows = 'push' in f['calls']
        nested = 'operations' in calls      # nested expression converted recursively
        key = 'expr-ref|' + v
        if nested and follows and _worklist_rescans(g, fn):
            rep.ok('X-edges', key, 'conversion converts the nested expression; filter arm pushes it on the work list that the scanning loop pops (%s)' % f['calls'], fn.loc(),
                   why='nested expression is scanned by the same loop')
        elif follows and not nested:
            rep.ok('X-edges', key, 'conversion calls %s; filter arm calls %s' % (sorted(calls & REF_CONVERTERS), f['calls']), fn.loc(),
                   why='filter pushes the referenced entry')
        elif nested and 'add_expression_refs' not in f['calls'] and not follows:
            rep.bad('X-edges', key, 'Operation::%s holds a nested expression that conversion converts (references included) but the filter does not scan' % v, fn.loc())
        else:
            rep.bad('X-edges', key, 'Operation::%s is converted with %s but add_expression_refs has no arm that follows the reference'
                    % (v, sorted(calls & REF_CONVERTERS)), fn.loc())
    rep.floor('X-edges', 'operation variants that carry entry references', n, 8)
    # attributes: variants reaching convert_expression / convert_*_ref in convert_attribute_value
    conva = extract(g, S['convert_attr_value'])
    filta = extract(g, S['filter_attr_refs'])
    fna = g.fn(S['filter_attr_refs']['fn'])
    m = 0
    for v in sorted(conva):
        calls = set(conva[v]['calls'])
        if not (calls & (REF_CONVERTERS | {'convert_expression', 'convert_location_list'})):
            continue
        m += 1
        f = filta.get(v, {'calls': []})
        rep.check('X-edges', 'attr-ref|' + v, 'push' in f['calls'] or 'add_expression_refs' in f['calls'] or 'operations' in f['calls'],
                  'AttributeValue::%s: conversion calls %s; filter arm calls %s' % (v, sorted(calls), f['calls']), fna.loc(),
                  why='filter follows the reference / scans the expression')
    rep.floor('X-edges', 'attribute variants that carry references', m, 4)


def run(rep, ctx):
    run_specs(rep, ctx, 'C19')
    run_edge_agreement(rep, ctx.g)
