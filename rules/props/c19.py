"""C19 — see DESIGN.md §4."""
from ..spec import run_specs

EXPLANATION = 'Edge-kind agreement: the attribute/operation variants for which conversion creates an entry reference are a subset of those the filter follows; per-variant fingerprints of the filter equal the reviewed tables. Closure/minimality over all graphs is NOT decided.'


def run(rep, ctx):
    run_specs(rep, ctx, 'C19')
