"""C20 — see DESIGN.md §4."""
from ..spec import run_specs
from .. import reuse
from ..witness import run_witnesses

EXPLANATION = 'Reset discipline: UnwindContext::initialize resets before use and reset stores every field; read_attributes clears the buffer first; no iterator/cursor type holds interior mutability; witnesses that two tables cannot share a context. Equality of reused vs fresh results is NOT decided.'


def run(rep, ctx):
    g = ctx.g
    run_specs(rep, ctx, 'C20')
    reuse.run_reset(rep, g)
    reuse.run_buffers(rep, g)
    reuse.run_no_hidden_state(rep, g)
    if not getattr(ctx, 'variant', None):
        run_witnesses(rep, ['OneTablePerContext', 'OneNodePerTree'])
