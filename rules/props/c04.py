"""C04 — see DESIGN.md §4."""
from ..spec import run_specs
from ..guards import run_D4

EXPLANATION = 'Per line-number instruction: LineRow::execute stores exactly the registers the reviewed (standard) table names and reaches the checked address arithmetic; every store to LineRow.address is one of three monotone shapes (checked add_sized, guarded SetAddress, reset via LineRow::new); the opcode decoder consumes the standard operand kinds; header validation of zero parameters precedes their use. Row equality with the state machine over all programs is NOT decided.'


def run(rep, ctx):
    run_specs(rep, ctx, 'C04')
    run_D4(rep, ctx.g)
    from ..guards import run_D10
    run_D10(rep, ctx.g)
