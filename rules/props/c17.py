"""C17 — see DESIGN.md §4."""
from ..spec import run_specs

EXPLANATION = 'Wiring tables: each Section impl returns its own SectionId, SectionId::name/dwo_name agree with the reviewed name table, indexed table accesses use stride = element width, CASE_FOLD_DATA is sorted. Lookup completeness is NOT decided.'


def run(rep, ctx):
    run_specs(rep, ctx, 'C17')
