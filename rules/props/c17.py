"""C17 — see DESIGN.md §4."""
from ..spec import run_specs
from .. import wiring

EXPLANATION = 'Wiring tables: each Section impl returns its own SectionId, SectionId::name/dwo_name agree with the reviewed name table, indexed table accesses use stride = element width, CASE_FOLD_DATA is sorted. Lookup completeness is NOT decided.'


def run(rep, ctx):
    g = ctx.g
    run_specs(rep, ctx, 'C17')
    wiring.run_W1(rep, g)
    wiring.run_W3(rep, g)
    wiring.run_W4(rep, g)
