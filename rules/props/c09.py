"""C09 — see DESIGN.md §4."""
from ..spec import run_specs

EXPLANATION = 'Narrowing discipline and sibling agreement of the primitive codecs: every narrowing cast in leb128::read / Reader defaults / ReaderOffset impls is a checked idiom; endianness polarity of all Endianity read/write functions agrees; size helpers and encoders share loop structure. Exactness over all byte strings is NOT decided.'


def run(rep, ctx):
    run_specs(rep, ctx, 'C09')
