"""C09 — see DESIGN.md §4."""
from ..spec import run_specs
from ..roots import read_roots
from . import c01
from .. import structs as ST
from ..ranges import Eval

EXPLANATION = 'Narrowing discipline and sibling agreement of the primitive codecs: every narrowing cast in leb128::read / Reader defaults / ReaderOffset impls is a checked idiom; endianness polarity of all Endianity read/write functions agrees; size helpers and encoders share loop structure. Exactness over all byte strings is NOT decided.'


def run_polarity(rep, g):
    rep.rule('E-polarity', 'endianness polarity: in every Endianity::read_*/write_* the *_be_bytes call sits on the is_big_endian() true '
             'edge and the *_le_bytes call on the false edge')
    n = 0
    for p, fn in sorted(g.fns.items()):
        if not p.startswith('endianity::Endianity::') or fn.kind != 'AssocFn':
            continue
        be = [bi for bi, t in fn.calls() if 'ptr' not in t['f'] and (t['f'].get('name') or '').endswith('_be_bytes')]
        le = [bi for bi, t in fn.calls() if 'ptr' not in t['f'] and (t['f'].get('name') or '').endswith('_le_bytes')]
        if not be and not le:
            continue
        n += 1
        ev = Eval(fn)
        ok = bool(be) and bool(le)
        for blocks, want in ((be, True), (le, False)):
            for b in blocks:
                # find the dominating switch on the is_big_endian() result
                good = False
                for d in fn.dom.get(b, ()):
                    t = fn.term(d)
                    if t['k'] != 'switch':
                        continue
                    dd = t['d']
                    if dd[0] in ('c', 'm') and len(dd[1]) == 1:
                        sd = fn.single_def(dd[1][0])
                        if sd and sd[1] == 'term' and sd[2]['f'].get('name') == 'is_big_endian':
                            for v, tgt in t['v'] + [[None, t['o']]]:
                                if ST.dominated_by_edge(fn, d, tgt, b):
                                    truth = (v != 0) if v is not None else ([x for x, _ in t['v']] == [0])
                                    if truth == want:
                                        good = True
                ok = ok and good
        rep.check('E-polarity', p, ok, 'be-bytes calls at %s, le-bytes calls at %s' % (be, le), fn.loc(),
                  why='big-endian codec on the is_big_endian() true edge, little-endian on the false edge')
    rep.floor('E-polarity', 'Endianity codec functions', n, 8)


def run(rep, ctx):
    g = ctx.g
    run_specs(rep, ctx, 'C09')
    run_polarity(rep, g)
    scope = {p for p in g.fns if p.startswith('leb128::') or p.startswith('read::reader::') or p.startswith('<u') and 'ReaderOffset' in p
             or p.startswith('endianity::') or p.startswith('write::writer::')}
    from ..liveness import run_liveness
    if not getattr(ctx, 'variant', None):
        run_liveness(rep, ctx.fx, ['N'])
    n = c01.run_N(rep, g, scope, scope_name='primitive codec (leb128, Reader defaults, ReaderOffset impls, Endianity, Writer defaults)', floor=8)
    from ..guards import run_X_leb
    run_X_leb(rep, ctx.g)
