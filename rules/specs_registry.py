"""All spec tables (tables/spec/<id>.json), the property and rule they serve."""

SPECS = [
    # ---- C04 line programs
    dict(id='line_execute', prop='C04', rule='A-line-execute', kind='arms',
         fn='read::line::LineRow::execute', enum='read::line::LineInstruction'),
    dict(id='line_instr_parse_std', prop='C04', rule='K4-line-instr', kind='consteff',
         fn='read::line::LineInstruction::<R, Offset>::parse', const_ty='constants::DwLns'),
    dict(id='line_instr_parse_ext', prop='C04', rule='K4-line-instr', kind='consteff',
         fn='read::line::LineInstruction::<R, Offset>::parse', const_ty='constants::DwLne'),
    dict(id='line_header_parse', prop='C04', rule='K4-line-header', kind='fneff',
         fn='read::line::LineProgramHeader::<R, Offset>::parse',
         extra_atoms={'parse_directory_v5': 'DIRV5', 'parse_file_v5': 'FILEV5', 'parse': 'SUBPARSE'}),
    # ---- C06 / C05 call frame
    dict(id='cfi_evaluate', prop='C06', rule='A-cfi-evaluate', kind='arms',
         fn="read::cfi::UnwindTable::<'a, 'ctx, R, S>::evaluate", enum='read::cfi::CallFrameInstruction'),
    dict(id='cfi_instr_parse', prop='C06', rule='K4-cfa', kind='consteff',
         fn='read::cfi::CallFrameInstruction::<T>::parse', const_ty='constants::DwCfa',
         extra_atoms={'parse_encoded_pointer': 'EH'}, eq_consts_prefix='DW_CFA_'),
    dict(id='eh_pe_value', prop='C05', rule='K4-eh-pe', kind='consteff',
         fn='read::cfi::parse_encoded_value', const_ty='constants::DwEhPe'),
    dict(id='cie_parse', prop='C05', rule='K4-cie', kind='fneff',
         fn='read::cfi::CommonInformationEntry::<R>::parse_rest' if False else 'read::cfi::parse_cfi_entry_prefix'),
    # ---- C07 expressions
    dict(id='op_parse', prop='C07', rule='K4-op', kind='consteff',
         fn='read::op::Operation::<R, Offset>::parse', const_ty='constants::DwOp',
         extra_atoms={'parse_data': 'DATA'}),
    dict(id='eval_one_operation', prop='C07', rule='A-eval', kind='arms',
         fn='read::op::Evaluation::<R, S>::evaluate_one_operation', enum='read::op::Operation'),
    # ---- C03 attributes
    dict(id='attr_parse', prop='C03', rule='K4-form', kind='consteff',
         fn='read::unit::parse_attribute', const_ty='constants::DwForm'),
    dict(id='attr_skip', prop='C03', rule='K3-skip', kind='consteff',
         fn='read::unit::skip_attributes', const_ty='constants::DwForm'),
    dict(id='line_attr_parse', prop='C03', rule='K2-line-attr', kind='consteff',
         fn='read::line::parse_attribute', const_ty='constants::DwForm'),
    # ---- C08 lists
    dict(id='rle_parse', prop='C08', rule='K4-rle', kind='consteff',
         fn='read::rnglists::RawRngListEntry::<T>::parse', const_ty='constants::DwRle'),
    dict(id='lle_parse', prop='C08', rule='K4-lle', kind='consteff',
         fn='read::loclists::RawLocListEntry::<R>::parse', const_ty='constants::DwLle',
         extra_atoms={'parse_data': 'DATA'}),
    dict(id='rng_convert_raw', prop='C08', rule='A-rng-convert', kind='arms',
         fn='read::rnglists::RngListIter::<R>::convert_raw', enum='read::rnglists::RawRngListEntry'),
    dict(id='loc_convert_raw', prop='C08', rule='A-loc-convert', kind='arms',
         fn='read::loclists::LocListIter::<R>::convert_raw', enum='read::loclists::RawLocListEntry'),
    # ---- C02 unit headers
    dict(id='unit_header_parse', prop='C02', rule='K4-unit-header', kind='fneff', fn='read::unit::parse_unit_header'),
    # ---- C12 converters
    dict(id='convert_attr_value', prop='C12', rule='A-convert-attr', kind='arms',
         fn="write::unit::convert::ConvertUnit::<'a, R>::convert_attribute_value", enum='read::unit::AttributeValue', which=1),
    dict(id='convert_expression', prop='C12', rule='A-convert-expr', kind='arms',
         fn='write::op::convert::<impl write::op::Expression>::from', enum='read::op::Operation'),
    dict(id='convert_cfi_instr', prop='C12', rule='A-convert-cfi', kind='arms',
         fn='write::cfi::convert::<impl write::cfi::CallFrameInstruction>::from', enum='read::cfi::CallFrameInstruction'),
    dict(id='convert_rnglist', prop='C12', rule='A-convert-rng', kind='arms',
         fn='write::range::convert::<impl write::range::RangeList>::from', enum='read::rnglists::RawRngListEntry'),
    dict(id='convert_loclist', prop='C12', rule='A-convert-loc', kind='arms',
         fn='write::loc::convert::<impl write::loc::LocationList>::from', enum='read::loclists::RawLocListEntry'),
    # ---- C13 written line programs
    dict(id='w_line_instr', prop='C13', rule='K1-line-instr-write', kind='eff',
         fn='write::line::LineInstruction::write', enum='write::line::LineInstruction'),
    # ---- C14 written frames
    dict(id='w_cfi_instr', prop='C14', rule='K1-cfa-write', kind='eff',
         fn='write::cfi::CallFrameInstruction::write', enum='write::cfi::CallFrameInstruction'),
    # ---- C15 written expressions
    dict(id='w_op_write', prop='C15', rule='K1-op-write', kind='eff',
         fn='write::op::Operation::write', enum='write::op::Operation'),
    dict(id='w_op_size', prop='C15', rule='S-op-size', kind='sizeeff',
         fn='write::op::Operation::size', enum='write::op::Operation'),
    # ---- C11 written attributes
    dict(id='w_attr_write', prop='C11', rule='K1-attr-write', kind='eff',
         fn='write::unit::AttributeValue::write', enum='write::unit::AttributeValue'),
    dict(id='w_attr_size', prop='C11', rule='S-attr-size', kind='sizeeff',
         fn='write::unit::AttributeValue::size', enum='write::unit::AttributeValue'),
    dict(id='w_attr_form', prop='C11', rule='A-attr-form', kind='constret',
         fn='write::unit::AttributeValue::form', enum='write::unit::AttributeValue'),
    # ---- C16 written lists
    dict(id='w_rnglists', prop='C16', rule='K1-rng-write', kind='eff',
         fn='write::range::RangeListTable::write_rnglists', enum='write::range::Range'),
    dict(id='w_ranges', prop='C16', rule='K1-rng-write', kind='eff',
         fn='write::range::RangeListTable::write_ranges', enum='write::range::Range'),
    dict(id='w_loclists', prop='C16', rule='K1-loc-write', kind='eff',
         fn='write::loc::LocationListTable::write_loclists', enum='write::loc::Location'),
    dict(id='w_loc', prop='C16', rule='K1-loc-write', kind='eff',
         fn='write::loc::LocationListTable::write_loc', enum='write::loc::Location'),
    # ---- C19 filter edges
    dict(id='filter_attr_refs', prop='C19', rule='A-filter-attr', kind='arms',
         fn="write::unit::convert::FilterUnit::<'a, R>::add_attribute_refs", enum='read::unit::AttributeValue'),
    dict(id='filter_expr_refs', prop='C19', rule='A-filter-expr', kind='arms',
         fn="write::unit::convert::FilterUnit::<'a, R>::add_expression_refs", enum='read::op::Operation'),
    # ---- whole-function summaries (stores to self, calls, error variants)
    dict(id='fn_unwind_context', prop='C06', rule='F-unwind-context', kind='fnsum', fns=[
        'read::cfi::UnwindContext::<T, S>::reset', 'read::cfi::UnwindContext::<T, S>::save_initial_rules',
        'read::cfi::UnwindContext::<T, S>::push_row', 'read::cfi::UnwindContext::<T, S>::pop_row',
        'read::cfi::UnwindContext::<T, S>::get_initial_rule', 'read::cfi::UnwindContext::<T, S>::set_register_rule',
        'read::cfi::UnwindContext::<T, S>::set_cfa', "read::cfi::UnwindTable::<'a, 'ctx, R, S>::next_row",
        'read::cfi::UnwindContext::<T, S>::initialize']),
    dict(id='fn_evaluation', prop='C07', rule='F-evaluation', kind='fnsum', fns=[
        'read::op::Evaluation::<R, S>::evaluate_internal', 'read::op::Evaluation::<R, S>::end_of_expression',
        'read::op::compute_pc', 'read::op::Evaluation::<R, S>::pop', 'read::op::Evaluation::<R, S>::push']),
    dict(id='fn_endianity', prop='C09', rule='F-endianity', kind='fnsum', fns=[
        'endianity::Endianity::read_u16', 'endianity::Endianity::read_u32', 'endianity::Endianity::read_u64',
        'endianity::Endianity::read_u128', 'endianity::Endianity::read_uint', 'endianity::Endianity::write_u16',
        'endianity::Endianity::write_u32', 'endianity::Endianity::write_u64', 'endianity::Endianity::write_u128',
        'leb128::read::unsigned', 'leb128::read::signed', 'leb128::read::u16', 'leb128::read::skip',
        'leb128::write::unsigned', 'leb128::write::signed', 'leb128::write::uleb128_size', 'leb128::write::sleb128_size',
        'read::reader::Reader::read_initial_length', 'read::reader::Reader::read_address', 'read::reader::Reader::read_word',
        'read::reader::Reader::read_offset', 'read::reader::Reader::read_sized_offset', 'read::reader::Reader::read_uint',
        'read::reader::Reader::read_address_size']),
    dict(id='fn_line_rows', prop='C04', rule='F-line-rows', kind='fnsum', fns=[
        'read::line::LineRows::<R, Program, Offset>::next_row', 'read::line::LineRow::reset', 'read::line::LineRow::new',
        'read::line::LineRow::apply_operation_advance', 'read::line::LineRow::exec_special_opcode',
        'read::line::LineRow::apply_line_advance']),
    dict(id='fn_entries', prop='C02', rule='F-entries', kind='fnsum', fns=[
        "read::unit::EntriesRaw::<'abbrev, R>::read_abbreviation", "read::unit::EntriesRaw::<'abbrev, R>::read_entry",
        "read::unit::EntriesRaw::<'abbrev, R>::new", "read::unit::EntriesRaw::<'abbrev, R>::seek_forward",
        "read::unit::EntriesCursor::<'abbrev, R>::next_entry", "read::unit::EntriesCursor::<'abbrev, R>::next_dfs",
        "read::unit::EntriesCursor::<'abbrev, R>::next_sibling", "read::unit::EntriesTree::<'abbrev, R>::next",
        "read::unit::EntriesTree::<'abbrev, R>::root", 'read::abbrev::Abbreviations::insert', 'read::abbrev::Abbreviations::get',
        'read::abbrev::Abbreviations::parse', 'read::abbrev::Abbreviation::parse']),
    dict(id='fn_readers', prop='C10', rule='F-readers', kind='fnsum', depth=1, fns=[
        "<read::endian_slice::EndianSlice<'input, Endian> as read::reader::Reader>::skip",
        "<read::endian_slice::EndianSlice<'input, Endian> as read::reader::Reader>::truncate",
        "<read::endian_slice::EndianSlice<'input, Endian> as read::reader::Reader>::split",
        "<read::endian_slice::EndianSlice<'input, Endian> as read::reader::Reader>::read_slice",
        "<read::endian_slice::EndianSlice<'input, Endian> as read::reader::Reader>::offset_id",
        "<read::endian_slice::EndianSlice<'input, Endian> as read::reader::Reader>::lookup_offset_id",
        "<read::endian_slice::EndianSlice<'input, Endian> as read::reader::Reader>::find",
        '<read::endian_reader::EndianReader<Endian, T> as read::reader::Reader>::skip',
        '<read::endian_reader::EndianReader<Endian, T> as read::reader::Reader>::truncate',
        '<read::endian_reader::EndianReader<Endian, T> as read::reader::Reader>::split',
        '<read::endian_reader::EndianReader<Endian, T> as read::reader::Reader>::read_slice',
        '<read::endian_reader::EndianReader<Endian, T> as read::reader::Reader>::offset_id',
        '<read::endian_reader::EndianReader<Endian, T> as read::reader::Reader>::lookup_offset_id',
        '<read::endian_reader::EndianReader<Endian, T> as read::reader::Reader>::find']),
    dict(id='fn_unwind_context20', prop='C20', rule='F-unwind-context', kind='fnsum', fns=[
        'read::cfi::UnwindContext::<T, S>::reset', 'read::cfi::UnwindContext::<T, S>::save_initial_rules',
        'read::cfi::UnwindContext::<T, S>::initialize', "read::cfi::UnwindTable::<'a, 'ctx, R, S>::new",
        'read::abbrev::AbbreviationsCache::get', 'read::abbrev::AbbreviationsCache::populate',
        'read::line::LineRows::<R, Program, Offset>::new', 'read::line::LineRows::<R, Program, Offset>::resume']),
]


def specs_for(prop):
    return [s for s in SPECS if s['prop'] == prop]
