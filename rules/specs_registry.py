"""All spec tables (tables/spec/<id>.json), the property and rule they serve."""

SPECS = [
    # ---- C04 line programs
    dict(id='line_execute', prop='C04', rule='A-line-execute', kind='arms',
         fn='read::line::LineRow::execute', enum='read::line::LineInstruction'),
    dict(id='line_instr_parse_std', prop='C04', rule='K4-line-instr', kind='consteff',
         fn='read::line::LineInstruction::<R, Offset>::parse', const_ty='constants::DwLns'),
    dict(id='line_instr_parse_ext', prop='C04', rule='K4-line-instr', kind='consteff',
         fn='read::line::LineInstruction::<R, Offset>::parse', const_ty='constants::DwLne'),
    dict(id='line_header_parse', prop='C04', rule='K4-line-header', kind='fneff',
         fn='read::line::LineProgramHeader::<R, Offset>::parse',
         extra_atoms={'parse_directory_v5': 'DIRV5', 'parse_file_v5': 'FILEV5', 'parse': 'SUBPARSE'}),
    # ---- C06 / C05 call frame
    dict(id='cfi_evaluate', prop='C06', rule='A-cfi-evaluate', kind='arms',
         fn="read::cfi::UnwindTable::<'a, 'ctx, R, S>::evaluate", enum='read::cfi::CallFrameInstruction'),
    dict(id='cfi_instr_parse', prop='C06', rule='K4-cfa', kind='consteff',
         fn='read::cfi::CallFrameInstruction::<T>::parse', const_ty='constants::DwCfa',
         extra_atoms={'parse_encoded_pointer': 'EH'}, eq_consts_prefix='DW_CFA_'),
    dict(id='eh_pe_value', prop='C05', rule='K4-eh-pe', kind='consteff',
         fn='read::cfi::parse_encoded_value', const_ty='constants::DwEhPe'),
    dict(id='cie_parse', prop='C05', rule='K4-cie', kind='fneff',
         fn='read::cfi::CommonInformationEntry::<R>::parse_rest' if False else 'read::cfi::parse_cfi_entry_prefix'),
    # ---- C07 expressions
    dict(id='op_parse', prop='C07', rule='K4-op', kind='consteff',
         fn='read::op::Operation::<R, Offset>::parse', const_ty='constants::DwOp',
         extra_atoms={'parse_data': 'DATA'}),
    dict(id='eval_one_operation', prop='C07', rule='A-eval', kind='arms',
         fn='read::op::Evaluation::<R, S>::evaluate_one_operation', enum='read::op::Operation'),
    # ---- C03 attributes
    dict(id='attr_parse', prop='C03', rule='K4-form', kind='consteff',
         fn='read::unit::parse_attribute', const_ty='constants::DwForm'),
    dict(id='attr_skip', prop='C03', rule='K3-skip', kind='consteff',
         fn='read::unit::skip_attributes', const_ty='constants::DwForm'),
    dict(id='line_attr_parse', prop='C03', rule='K2-line-attr', kind='consteff',
         fn='read::line::parse_attribute', const_ty='constants::DwForm'),
    # ---- C08 lists
    dict(id='rle_parse', prop='C08', rule='K4-rle', kind='consteff',
         fn='read::rnglists::RawRngListEntry::<T>::parse', const_ty='constants::DwRle'),
    dict(id='lle_parse', prop='C08', rule='K4-lle', kind='consteff',
         fn='read::loclists::RawLocListEntry::<R>::parse', const_ty='constants::DwLle',
         extra_atoms={'parse_data': 'DATA'}),
    dict(id='rng_convert_raw', prop='C08', rule='A-rng-convert', kind='arms',
         fn='read::rnglists::RngListIter::<R>::convert_raw', enum='read::rnglists::RawRngListEntry'),
    dict(id='loc_convert_raw', prop='C08', rule='A-loc-convert', kind='arms',
         fn='read::loclists::LocListIter::<R>::convert_raw', enum='read::loclists::RawLocListEntry'),
    # ---- C02 unit headers
    dict(id='unit_header_parse', prop='C02', rule='K4-unit-header', kind='fneff', fn='read::unit::parse_unit_header'),
    # ---- C12 converters
    dict(id='convert_attr_value', prop='C12', rule='A-convert-attr', kind='arms',
         fn="write::unit::convert::ConvertUnit::<'a, R>::convert_attribute_value", enum='read::unit::AttributeValue', which=1),
    dict(id='convert_expression', prop='C12', rule='A-convert-expr', kind='arms',
         fn='write::op::convert::<impl write::op::Expression>::from', enum='read::op::Operation'),
    dict(id='convert_cfi_instr', prop='C12', rule='A-convert-cfi', kind='arms',
         fn='write::cfi::convert::<impl write::cfi::CallFrameInstruction>::from', enum='read::cfi::CallFrameInstruction'),
    dict(id='convert_rnglist', prop='C12', rule='A-convert-rng', kind='arms',
         fn='write::range::convert::<impl write::range::RangeList>::from', enum='read::rnglists::RawRngListEntry'),
    dict(id='convert_loclist', prop='C12', rule='A-convert-loc', kind='arms',
         fn='write::loc::convert::<impl write::loc::LocationList>::from', enum='read::loclists::RawLocListEntry'),
    # ---- C13 written line programs
    dict(id='w_line_instr', prop='C13', rule='K1-line-instr-write', kind='eff',
         fn='write::line::LineInstruction::write', enum='write::line::LineInstruction'),
    # ---- C14 written frames
    dict(id='w_cfi_instr', prop='C14', rule='K1-cfa-write', kind='eff',
         fn='write::cfi::CallFrameInstruction::write', enum='write::cfi::CallFrameInstruction'),
    # ---- C15 written expressions
    dict(id='w_op_write', prop='C15', rule='K1-op-write', kind='eff',
         fn='write::op::Operation::write', enum='write::op::Operation'),
    dict(id='w_op_size', prop='C15', rule='S-op-size', kind='sizeeff',
         fn='write::op::Operation::size', enum='write::op::Operation'),
    # ---- C11 written attributes
    dict(id='w_attr_write', prop='C11', rule='K1-attr-write', kind='eff',
         fn='write::unit::AttributeValue::write', enum='write::unit::AttributeValue'),
    dict(id='w_attr_size', prop='C11', rule='S-attr-size', kind='sizeeff',
         fn='write::unit::AttributeValue::size', enum='write::unit::AttributeValue'),
    dict(id='w_attr_form', prop='C11', rule='A-attr-form', kind='constret',
         fn='write::unit::AttributeValue::form', enum='write::unit::AttributeValue'),
    # ---- C16 written lists
    dict(id='w_rnglists', prop='C16', rule='K1-rng-write', kind='eff',
         fn='write::range::RangeListTable::write_rnglists', enum='write::range::Range'),
    dict(id='w_ranges', prop='C16', rule='K1-rng-write', kind='eff',
         fn='write::range::RangeListTable::write_ranges', enum='write::range::Range'),
    dict(id='w_loclists', prop='C16', rule='K1-loc-write', kind='eff',
         fn='write::loc::LocationListTable::write_loclists', enum='write::loc::Location'),
    dict(id='w_loc', prop='C16', rule='K1-loc-write', kind='eff',
         fn='write::loc::LocationListTable::write_loc', enum='write::loc::Location'),
    # ---- C19 filter edges
    dict(id='filter_attr_refs', prop='C19', rule='A-filter-attr', kind='arms',
         fn="write::unit::convert::FilterUnit::<'a, R>::add_attribute_refs", enum='read::unit::AttributeValue'),
    dict(id='filter_expr_refs', prop='C19', rule='A-filter-expr', kind='arms',
         fn="write::unit::convert::FilterUnit::<'a, R>::add_expression_refs", enum='read::op::Operation'),
    # ---- whole-function summaries (stores to self, calls, error variants)
    dict(id='fn_unwind_context', counts=True, prop='C06', rule='F-unwind-context', kind='fnsum', fns=[
        'read::cfi::UnwindContext::<T, S>::reset', 'read::cfi::UnwindContext::<T, S>::save_initial_rules',
        'read::cfi::UnwindContext::<T, S>::push_row', 'read::cfi::UnwindContext::<T, S>::pop_row',
        'read::cfi::UnwindContext::<T, S>::get_initial_rule', 'read::cfi::UnwindContext::<T, S>::set_register_rule',
        'read::cfi::UnwindContext::<T, S>::set_cfa', "read::cfi::UnwindTable::<'a, 'ctx, R, S>::next_row",
        'read::cfi::UnwindContext::<T, S>::initialize']),
    dict(id='fn_evaluation', counts=True, prop='C07', rule='F-evaluation', kind='fnsum', fns=[
        'read::op::Evaluation::<R, S>::evaluate_internal', 'read::op::Evaluation::<R, S>::end_of_expression',
        'read::op::compute_pc', 'read::op::Evaluation::<R, S>::pop', 'read::op::Evaluation::<R, S>::push']),
    dict(id='fn_endianity', counts=True, prop='C09', rule='F-endianity', kind='fnsum', fns=[
        'endianity::Endianity::read_u16', 'endianity::Endianity::read_u32', 'endianity::Endianity::read_u64',
        'endianity::Endianity::read_u128', 'endianity::Endianity::read_uint', 'endianity::Endianity::write_u16',
        'endianity::Endianity::write_u32', 'endianity::Endianity::write_u64', 'endianity::Endianity::write_u128',
        'leb128::read::unsigned', 'leb128::read::signed', 'leb128::read::u16', 'leb128::read::skip',
        'leb128::write::unsigned', 'leb128::write::signed', 'leb128::write::uleb128_size', 'leb128::write::sleb128_size',
        'read::reader::Reader::read_initial_length', 'read::reader::Reader::read_address', 'read::reader::Reader::read_word',
        'read::reader::Reader::read_offset', 'read::reader::Reader::read_sized_offset', 'read::reader::Reader::read_uint',
        'read::reader::Reader::read_address_size']),
    dict(id='fn_line_rows', counts=True, prop='C04', rule='F-line-rows', kind='fnsum', fns=[
        'read::line::LineRows::<R, Program, Offset>::next_row', 'read::line::LineRow::reset', 'read::line::LineRow::new',
        'read::line::LineRow::apply_operation_advance', 'read::line::LineRow::exec_special_opcode',
        'read::line::LineRow::apply_line_advance']),
    dict(id='fn_entries', counts=True, prop='C02', rule='F-entries', kind='fnsum', fns=[
        "read::unit::EntriesRaw::<'abbrev, R>::read_abbreviation", "read::unit::EntriesRaw::<'abbrev, R>::read_entry",
        "read::unit::EntriesRaw::<'abbrev, R>::new", "read::unit::EntriesRaw::<'abbrev, R>::seek_forward",
        "read::unit::EntriesCursor::<'abbrev, R>::next_entry", "read::unit::EntriesCursor::<'abbrev, R>::next_dfs",
        "read::unit::EntriesCursor::<'abbrev, R>::next_sibling", "read::unit::EntriesTree::<'abbrev, R>::next",
        "read::unit::EntriesTree::<'abbrev, R>::root", 'read::abbrev::Abbreviations::insert', 'read::abbrev::Abbreviations::get',
        'read::abbrev::Abbreviations::parse', 'read::abbrev::Abbreviation::parse']),
    dict(id='fn_readers', counts=True, prop='C10', rule='F-readers', kind='fnsum', depth=1, fns=[
        "<read::endian_slice::EndianSlice<'input, Endian> as read::reader::Reader>::skip",
        "<read::endian_slice::EndianSlice<'input, Endian> as read::reader::Reader>::truncate",
        "<read::endian_slice::EndianSlice<'input, Endian> as read::reader::Reader>::split",
        "<read::endian_slice::EndianSlice<'input, Endian> as read::reader::Reader>::read_slice",
        "<read::endian_slice::EndianSlice<'input, Endian> as read::reader::Reader>::offset_id",
        "<read::endian_slice::EndianSlice<'input, Endian> as read::reader::Reader>::lookup_offset_id",
        "<read::endian_slice::EndianSlice<'input, Endian> as read::reader::Reader>::find",
        '<read::endian_reader::EndianReader<Endian, T> as read::reader::Reader>::skip',
        '<read::endian_reader::EndianReader<Endian, T> as read::reader::Reader>::truncate',
        '<read::endian_reader::EndianReader<Endian, T> as read::reader::Reader>::split',
        '<read::endian_reader::EndianReader<Endian, T> as read::reader::Reader>::read_slice',
        '<read::endian_reader::EndianReader<Endian, T> as read::reader::Reader>::offset_id',
        '<read::endian_reader::EndianReader<Endian, T> as read::reader::Reader>::lookup_offset_id',
        '<read::endian_reader::EndianReader<Endian, T> as read::reader::Reader>::find']),
    dict(id='fn_unwind_context20', counts=True, prop='C20', rule='F-unwind-context', kind='fnsum', fns=[
        'read::cfi::UnwindContext::<T, S>::reset', 'read::cfi::UnwindContext::<T, S>::save_initial_rules',
        'read::cfi::UnwindContext::<T, S>::initialize', "read::cfi::UnwindTable::<'a, 'ctx, R, S>::new",
        'read::abbrev::AbbreviationsCache::get', 'read::abbrev::AbbreviationsCache::populate',
        'read::line::LineRows::<R, Program, Offset>::new', 'read::line::LineRows::<R, Program, Offset>::resume']),
    # ---- wider whole-function fingerprints incl. which fields of self are read (wrong-field / wrong-callee edits)
    dict(id='fn_core_c02', prop='C02', rule='F-core', kind='fnsum', reads=True, depth=1, fns=['read::unit::DebuggingInformationEntry::<R, Offset>::sibling', "read::unit::EntriesRaw::<'abbrev, R>::next_offset", 'read::unit::UnitHeader::<R, Offset>::entry', 'read::unit::UnitHeader::<R, Offset>::header_size', 'read::unit::UnitHeader::<R, Offset>::is_in_bounds', 'read::unit::UnitHeader::<R, Offset>::range', 'read::unit::UnitHeader::<R, Offset>::range_from', 'read::unit::UnitHeader::<R, Offset>::range_to', 'read::unit::parse_unit_header']),
    dict(id='fn_core_c03', prop='C03', rule='F-core', kind='fnsum', reads=True, depth=1, fns=['read::unit::Attribute::<R>::value', 'read::unit::AttributeValue::<R, Offset>::exprloc_value', 'read::unit::AttributeValue::<R, Offset>::offset_value', 'read::unit::AttributeValue::<R, Offset>::sdata_value', 'read::unit::AttributeValue::<R, Offset>::u16_value', 'read::unit::AttributeValue::<R, Offset>::u8_value', 'read::unit::AttributeValue::<R, Offset>::udata_value', "read::unit::EntriesRaw::<'abbrev, R>::read_attributes", 'read::unit::allow_section_offset', 'read::unit::parse_attribute', 'read::abbrev::Abbreviation::parse_attributes', 'read::abbrev::Abbreviation::parse_has_children', 'read::abbrev::Abbreviation::parse_tag', 'read::abbrev::AttributeSpecification::implicit_const_value', 'read::abbrev::AttributeSpecification::parse', 'read::abbrev::AttributeSpecification::size', 'read::abbrev::get_attribute_size', 'read::line::parse_attribute']),
    dict(id='fn_core_c04', prop='C04', rule='F-core', kind='fnsum', reads=True, depth=1, fns=['read::line::FileEntry::<R, Offset>::parse', 'read::line::FileEntryFormat::parse', 'read::line::IncompleteLineProgram::<R, Offset>::sequences', 'read::line::LineInstruction::<R, Offset>::parse', 'read::line::LineInstructions::<R>::next_instruction', 'read::line::LineInstructions::<R>::remove_trailing', 'read::line::LineProgramHeader::<R, Offset>::directory', 'read::line::LineProgramHeader::<R, Offset>::file', 'read::line::LineProgramHeader::<R, Offset>::parse', 'read::line::LineRow::execute', 'read::line::parse_directory_v5', 'read::line::parse_file_v5', 'read::reader::ReaderAddress::min_tombstone', '<u64 as read::reader::ReaderAddress>::add_sized', '<u64 as read::reader::ReaderAddress>::wrapping_add_sized', '<u64 as read::reader::ReaderAddress>::ones_sized']),
    dict(id='fn_core_c06', prop='C06', rule='F-core', kind='fnsum', reads=True, depth=1, fns=['<read::cfi::RegisterRuleMap<T, S> as core::cmp::PartialEq>::eq', 'read::cfi::CallFrameInstruction::<T>::parse', "read::cfi::CallFrameInstructionIter::<'a, R>::next", 'read::cfi::RegisterRuleMap::<T, S>::clear', 'read::cfi::RegisterRuleMap::<T, S>::get', 'read::cfi::RegisterRuleMap::<T, S>::is_default', 'read::cfi::RegisterRuleMap::<T, S>::iter', 'read::cfi::RegisterRuleMap::<T, S>::set', 'read::cfi::UnwindExpression::<T>::get', "read::cfi::UnwindTable::<'a, 'ctx, R, S>::evaluate", 'read::cfi::UnwindTableRow::<T, S>::contains', 'read::cfi::UnwindTableRow::<T, S>::is_default', 'read::util::ArrayVec::<A>::clear', 'read::util::ArrayVec::<A>::pop', 'read::util::ArrayVec::<A>::swap_remove', 'read::util::ArrayVec::<A>::try_insert', 'read::util::ArrayVec::<A>::try_push']),
    dict(id='fn_core_c07', prop='C07', rule='F-core', kind='fnsum', reads=True, depth=1, fns=['read::value::Value::abs', 'read::value::Value::add', 'read::value::Value::and', 'read::value::Value::convert', 'read::value::Value::div', 'read::value::Value::eq', 'read::value::Value::from_f32', 'read::value::Value::from_f64', 'read::value::Value::from_u64', 'read::value::Value::ge', 'read::value::Value::gt', 'read::value::Value::le', 'read::value::Value::lt', 'read::value::Value::mul', 'read::value::Value::ne', 'read::value::Value::neg', 'read::value::Value::not', 'read::value::Value::or', 'read::value::Value::parse', 'read::value::Value::reinterpret', 'read::value::Value::rem', 'read::value::Value::shift_length', 'read::value::Value::shl', 'read::value::Value::shr', 'read::value::Value::shra', 'read::value::Value::sub', 'read::value::Value::to_u64', 'read::value::Value::value_type', 'read::value::Value::xor', 'read::value::mask_bit_size', 'read::value::sign_extend', 'read::op::Evaluation::<R, S>::as_result', 'read::op::Evaluation::<R, S>::evaluate', 'read::op::Evaluation::<R, S>::new_in', 'read::op::Evaluation::<R, S>::resume_with_at_location', 'read::op::Evaluation::<R, S>::resume_with_base_type', 'read::op::Evaluation::<R, S>::resume_with_call_frame_cfa', 'read::op::Evaluation::<R, S>::resume_with_entry_value', 'read::op::Evaluation::<R, S>::resume_with_frame_base', 'read::op::Evaluation::<R, S>::resume_with_indexed_address', 'read::op::Evaluation::<R, S>::resume_with_memory', 'read::op::Evaluation::<R, S>::resume_with_parameter_ref', 'read::op::Evaluation::<R, S>::resume_with_register', 'read::op::Evaluation::<R, S>::resume_with_relocated_address', 'read::op::Evaluation::<R, S>::resume_with_tls', 'read::op::Evaluation::<R, S>::resume_with_wasm_value', 'read::op::Evaluation::<R, S>::set_initial_value', 'read::op::Evaluation::<R, S>::value_result', 'read::op::Location::<R, Offset>::is_empty', 'read::op::Operation::<R, Offset>::parse', 'read::op::generic_type']),
    dict(id='fn_core_c09', prop='C09', rule='F-core', kind='fnsum', reads=True, depth=1, fns=['read::reader::Reader::read_f32', 'read::reader::Reader::read_f64', 'read::reader::Reader::read_i16', 'read::reader::Reader::read_i32', 'read::reader::Reader::read_i64', 'read::reader::Reader::read_i8', 'read::reader::Reader::read_null_terminated_slice', 'read::reader::Reader::read_u128', 'read::reader::Reader::read_u16', 'read::reader::Reader::read_u32', 'read::reader::Reader::read_u64', 'read::reader::Reader::read_u8', 'read::reader::Reader::read_u8_array', 'read::reader::Reader::read_uleb128_u32', 'write::writer::Writer::write_address', 'write::writer::Writer::write_eh_pointer', 'write::writer::Writer::write_eh_pointer_data', 'write::writer::Writer::write_initial_length', 'write::writer::Writer::write_initial_length_at', 'write::writer::Writer::write_sdata', 'write::writer::Writer::write_sleb128', 'write::writer::Writer::write_u128', 'write::writer::Writer::write_u128_at', 'write::writer::Writer::write_u16', 'write::writer::Writer::write_u16_at', 'write::writer::Writer::write_u32', 'write::writer::Writer::write_u32_at', 'write::writer::Writer::write_u64', 'write::writer::Writer::write_u64_at', 'write::writer::Writer::write_udata', 'write::writer::Writer::write_udata_at', 'write::writer::Writer::write_uleb128', 'leb128::low_bits_of_u64', 'leb128::write::Leb128::signed', 'leb128::write::Leb128::unsigned', 'leb128::write::Leb128::write']),
    dict(id='fn_core_c10', prop='C10', rule='F-core', kind='fnsum', reads=True, depth=1, fns=['read::endian_reader::EndianReader::<Endian, T>::range', 'read::endian_reader::EndianReader::<Endian, T>::range_from', 'read::endian_reader::EndianReader::<Endian, T>::range_to', 'read::endian_reader::SubRange::<T>::new', 'read::endian_reader::SubRange::<T>::read_slice', 'read::endian_reader::SubRange::<T>::skip', 'read::endian_reader::SubRange::<T>::truncate', "read::endian_slice::EndianSlice::<'input, Endian>::find", "read::endian_slice::EndianSlice::<'input, Endian>::offset_from", "read::endian_slice::EndianSlice::<'input, Endian>::split_at", "read::endian_slice::EndianSlice::<'input, Endian>::to_string"]),
    dict(id='fn_core_c20', prop='C20', rule='F-core', kind='fnsum', reads=True, depth=1, fns=["read::unit::EntriesRaw::<'abbrev, R>::read_attributes", "read::unit::EntriesTree::<'abbrev, R>::root", 'read::dwarf::Dwarf::<R>::abbreviations', 'read::dwarf::Dwarf::<R>::populate_abbreviations_cache', 'read::dwarf::Unit::<R>::new_with_abbreviations']),
    dict(id='fn_core_c05', prop='C05', rule='F-core', kind='fnsum', reads=True, depth=1, fns=['<read::cfi::DebugFrame<R> as read::cfi::_UnwindSectionPrivate<R>>::resolve_cie_offset', '<read::cfi::EhFrame<R> as read::cfi::_UnwindSectionPrivate<R>>::resolve_cie_offset', 'read::cfi::Augmentation::parse', 'read::cfi::AugmentationData::parse', 'read::cfi::CommonInformationEntry::<R>::from_prefix', 'read::cfi::EhFrameHdr::<R>::parse', "read::cfi::EhHdrTable::<'a, R>::fde_for_address", "read::cfi::EhHdrTable::<'a, R>::lookup", "read::cfi::EhHdrTable::<'a, R>::pointer_to_offset", 'read::cfi::FrameDescriptionEntry::<R>::parse_addresses', 'read::cfi::FrameDescriptionEntry::<R>::parse_rest', "read::cfi::PartialFrameDescriptionEntry::<'bases, Section, R>::from_prefix", "read::cfi::PartialFrameDescriptionEntry::<'bases, Section, R>::parse", "read::cfi::PartialFrameDescriptionEntry::<'bases, Section, R>::parse_partial", 'read::cfi::parse_cfi_entry', 'read::cfi::parse_encoded_pointer']),
    dict(id='fn_core_c08', prop='C08', rule='F-core', kind='fnsum', reads=True, depth=1, fns=['read::addr::DebugAddr::<R>::get_address', 'read::dwarf::Dwarf::<R>::address', 'read::dwarf::Dwarf::<R>::attr_locations', 'read::dwarf::Dwarf::<R>::attr_locations_offset', 'read::dwarf::Dwarf::<R>::attr_ranges', 'read::dwarf::Dwarf::<R>::attr_ranges_offset', 'read::dwarf::Dwarf::<R>::die_ranges', 'read::dwarf::Dwarf::<R>::locations', 'read::dwarf::Dwarf::<R>::ranges', 'read::dwarf::Dwarf::<R>::ranges_offset_from_raw', 'read::dwarf::Dwarf::<R>::raw_locations', 'read::dwarf::Dwarf::<R>::raw_ranges', 'read::dwarf::Dwarf::<R>::unit_ranges', 'read::loclists::LocListIter::<R>::get_address', 'read::loclists::LocListIter::<R>::next', 'read::loclists::LocationLists::<R>::get_offset', 'read::loclists::LocationLists::<R>::locations', 'read::loclists::LocationLists::<R>::locations_dwo', 'read::loclists::LocationLists::<R>::raw_locations', 'read::loclists::LocationLists::<R>::raw_locations_dwo', 'read::rnglists::Range::add_base_address', 'read::rnglists::RangeLists::<R>::get_offset', 'read::rnglists::RangeLists::<R>::ranges', 'read::rnglists::RangeLists::<R>::raw_ranges', 'read::rnglists::RngListIter::<R>::get_address', 'read::rnglists::RngListIter::<R>::next', 'read::loclists::LocListIter::<R>::convert_raw', 'read::rnglists::RngListIter::<R>::convert_raw', 'read::lists::ListsHeader::size_for_encoding', 'read::lists::parse_header']),
    dict(id='fn_core_c17', prop='C17', rule='F-core', kind='fnsum', reads=True, depth=1, fns=['<read::lookup::PubStuffParser<R, Entry> as read::lookup::LookupParser<R>>::parse_entry', '<read::lookup::PubStuffParser<R, Entry> as read::lookup::LookupParser<R>>::parse_header', 'read::addr::AddrHeader::<R, Offset>::parse', 'read::aranges::ArangeHeader::<R, Offset>::parse', 'read::dwarf::DwarfPackage::<R>::cu_sections', 'read::dwarf::DwarfPackage::<R>::find_cu', 'read::dwarf::DwarfPackage::<R>::find_tu', 'read::dwarf::DwarfPackage::<R>::sections', 'read::dwarf::DwarfPackage::<R>::tu_sections', 'read::dwarf::DwarfSections::<T>::borrow', 'read::dwarf::DwarfSections::<T>::load', 'read::index::UnitIndex::<R>::find', 'read::index::UnitIndex::<R>::parse', 'read::index::UnitIndex::<R>::sections', 'read::names::NameBucketIter::<R>::new', 'read::names::NameBucketIter::<R>::next', 'read::names::NameEntry::<R>::parse', 'read::names::NameHashIter::<R>::new', 'read::names::NameHashIter::<R>::next', 'read::names::NameIndex::<R>::compile_unit', 'read::names::NameIndex::<R>::compile_unit_count', 'read::names::NameIndex::<R>::foreign_type_unit', 'read::names::NameIndex::<R>::foreign_type_unit_count', 'read::names::NameIndex::<R>::local_type_unit', 'read::names::NameIndex::<R>::local_type_unit_count', 'read::names::NameIndex::<R>::name_string_offset', 'read::names::NameIndex::<R>::new', 'read::str::DebugStrOffsets::<R>::get_str_offset']),
    dict(id='fn_core_c11', prop='C11', rule='F-core', kind='fnsum', reads=True, depth=1, fns=['write::abbrev::Abbreviation::write', 'write::abbrev::AbbreviationTable::add', 'write::abbrev::AbbreviationTable::write', 'write::abbrev::AttributeSpecification::write', 'write::dwarf::Dwarf::write', 'write::str::StringTable::add', 'write::str::StringTable::write', 'write::unit::DebuggingInformationEntry::calculate_offsets', 'write::unit::DebuggingInformationEntry::size', 'write::unit::DebuggingInformationEntry::write', 'write::unit::Unit::reorder_base_types', 'write::unit::Unit::write', 'write::unit::UnitTable::write',
        # the per-unit range / location list tables whose offsets the unit's attributes refer to
        'write::range::RangeListTable::write', 'write::loc::LocationListTable::write']),
    dict(id='fn_core_c13', prop='C13', rule='F-core', kind='fnsum', reads=True, depth=1, fns=['write::line::LineProgram::add_directory', 'write::line::LineProgram::add_file', 'write::line::LineProgram::begin_sequence', 'write::line::LineProgram::end_sequence', 'write::line::LineProgram::generate_row', 'write::line::LineProgram::op_advance', 'write::line::LineProgram::set_address', 'write::line::LineProgram::write', 'write::line::LineString::write']),
    dict(id='fn_core_c14', prop='C14', rule='F-core', kind='fnsum', reads=True, depth=1, fns=['write::cfi::CommonInformationEntry::has_augmentation', 'write::cfi::CommonInformationEntry::write', 'write::cfi::FrameDescriptionEntry::write', 'write::cfi::FrameTable::add_cie', 'write::cfi::FrameTable::add_fde', 'write::cfi::FrameTable::write', 'write::cfi::FrameTable::write_debug_frame', 'write::cfi::FrameTable::write_eh_frame', 'write::cfi::factored_code_delta', 'write::cfi::factored_data_offset', 'write::cfi::write_advance_loc', 'write::cfi::write_nop']),
    dict(id='fn_core_c15', prop='C15', rule='F-core', kind='fnsum', reads=True, depth=1, fns=['write::op::Expression::size', 'write::op::Expression::write']),
    dict(id='fn_core_c16', prop='C16', rule='F-core', kind='fnsum', reads=True, depth=1, fns=['write::loc::LocationListTable::add', 'write::loc::LocationListTable::write', 'write::loc::write_expression', 'write::range::RangeListTable::add', 'write::range::RangeListTable::write']),
    dict(id='fn_core_c12', prop='C12', rule='F-core', kind='fnsum', reads=True, depth=1, fns=['write::dwarf::convert::<impl write::dwarf::Dwarf>::convert', 'write::dwarf::convert::<impl write::dwarf::Dwarf>::convert_with_filter', 'write::dwarf::convert::<impl write::dwarf::Dwarf>::from', "write::line::convert::ConvertLineProgram::<'a, R>::convert", "write::line::convert::ConvertLineProgram::<'a, R>::convert_file", "write::line::convert::ConvertLineProgram::<'a, R>::convert_row", "write::line::convert::ConvertLineProgram::<'a, R>::end_sequence", "write::line::convert::ConvertLineProgram::<'a, R>::generate_row", "write::line::convert::ConvertLineProgram::<'a, R>::new", "write::line::convert::ConvertLineProgram::<'a, R>::read_row", "write::line::convert::ConvertLineProgram::<'a, R>::set_address", "write::unit::convert::ConvertUnit::<'a, R>::convert", "write::unit::convert::ConvertUnit::<'a, R>::convert_attribute_value", "write::unit::convert::ConvertUnit::<'a, R>::convert_attributes", "write::unit::convert::ConvertUnit::<'a, R>::convert_debug_info_ref", "write::unit::convert::ConvertUnit::<'a, R>::convert_expression", "write::unit::convert::ConvertUnit::<'a, R>::convert_file_index", "write::unit::convert::ConvertUnit::<'a, R>::convert_location_list", "write::unit::convert::ConvertUnit::<'a, R>::convert_range_list", "write::unit::convert::ConvertUnit::<'a, R>::convert_split", "write::unit::convert::ConvertUnit::<'a, R>::convert_split_with_filter", "write::unit::convert::ConvertUnit::<'a, R>::convert_unit_ref"]),
    dict(id='fn_core_c19', prop='C19', rule='F-core', kind='fnsum', reads=True, depth=1, fns=["write::unit::convert::ConvertUnit::<'a, R>::add_entry", "write::unit::convert::ConvertUnit::<'a, R>::read_entry", "write::unit::convert::ConvertUnitSection::<'a, R>::new_with_filter", "write::unit::convert::ConvertUnitSection::<'a, R>::read_unit", "write::unit::convert::ConvertUnitSection::<'a, R>::reserve_unit", 'write::unit::convert::FilterDependencies::add_edge', 'write::unit::convert::FilterDependencies::add_entry', 'write::unit::convert::FilterDependencies::get_reachable', "write::unit::convert::FilterUnit::<'a, R>::filter_attributes", "write::unit::convert::FilterUnit::<'a, R>::new", "write::unit::convert::FilterUnit::<'a, R>::read_entry", "write::unit::convert::FilterUnit::<'a, R>::require_entry"]),
    dict(id='fn_core_c18', prop='C18', rule='F-core', kind='fnsum', reads=True, depth=1, fns=['read::relocate::RelocateReader::<R, T>::inner', 'read::relocate::RelocateReader::<R, T>::new', 'write::relocate::<impl write::writer::Writer for T>::endian', 'write::relocate::<impl write::writer::Writer for T>::len', 'write::relocate::<impl write::writer::Writer for T>::write', 'write::relocate::<impl write::writer::Writer for T>::write_address', 'write::relocate::<impl write::writer::Writer for T>::write_at', 'write::relocate::<impl write::writer::Writer for T>::write_eh_pointer', 'write::relocate::<impl write::writer::Writer for T>::write_offset', 'write::relocate::<impl write::writer::Writer for T>::write_offset_at',
        # the writer functions that take an Address::Symbol apart or build one (symbol + addend arithmetic)
        'write::loc::LocationListTable::write_loc', 'write::range::RangeListTable::write_ranges', 'write::writer::Writer::write_address', 'write::writer::Writer::write_eh_pointer']),
]


# ---- remaining non-trivial functions of the anchored files, each assigned to the one property whose mechanism it belongs to
# (tables/fn_extra.json, frozen): they get a row in that property's F-core table
def _load_extra():
    import json
    import os
    p_ = os.path.join(os.path.dirname(os.path.dirname(os.path.abspath(__file__))), 'tables', 'fn_extra.json')
    if not os.path.exists(p_):
        return
    extra = json.load(open(p_))
    by_id = {s_['id']: s_ for s_ in SPECS}
    for prop, fns in extra.items():
        sp = by_id.get('fn_core_%s' % prop.lower())
        if sp is None:
            continue
        for f_ in fns:
            if f_ not in sp['fns']:
                sp['fns'].append(f_)


_load_extra()


def specs_for(prop):
    return [s for s in SPECS if s['prop'] == prop]
