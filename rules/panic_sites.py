"""P / N rules: enumerate panic-capable sites in read-reachable code and discharge them by
interval + guard reasoning (ranges.py).  Everything not discharged is returned as *open* and
must be matched by an exact-key reviewed entry or known finding (DESIGN.md §2 P, N)."""
import re
from collections import Counter, defaultdict

from .ranges import Eval, type_range, bits_of, math_bin, meet, join, clamp
from .facts import INT_TYPES

ARITH_TRAITS = {
    'core::ops::Add::add': 'Add', 'core::ops::Sub::sub': 'Sub', 'core::ops::Mul::mul': 'Mul',
    'core::ops::Div::div': 'Div', 'core::ops::Rem::rem': 'Rem', 'core::ops::Neg::neg': 'Neg',
    'core::ops::Shl::shl': 'Shl', 'core::ops::Shr::shr': 'Shr',
    'core::ops::AddAssign::add_assign': 'Add', 'core::ops::SubAssign::sub_assign': 'Sub',
    'core::ops::MulAssign::mul_assign': 'Mul', 'core::ops::DivAssign::div_assign': 'Div',
    'core::ops::RemAssign::rem_assign': 'Rem', 'core::ops::ShlAssign::shl_assign': 'Shl',
    'core::ops::ShrAssign::shr_assign': 'Shr',
}
PANIC_CALLS = {
    'core::option::Option::<T>::unwrap': 'unwrap', 'core::option::Option::<T>::expect': 'expect',
    'core::result::Result::<T, E>::unwrap': 'unwrap', 'core::result::Result::<T, E>::expect': 'expect',
    'core::result::Result::<T, E>::unwrap_err': 'unwrap_err', 'core::result::Result::<T, E>::expect_err': 'expect_err',
    'core::slice::<impl [T]>::copy_from_slice': 'copy_from_slice', 'core::slice::<impl [T]>::split_at': 'split_at',
    'core::slice::<impl [T]>::split_at_mut': 'split_at_mut', 'core::slice::<impl [T]>::swap': 'swap',
    'alloc::vec::Vec::<T, A>::remove': 'Vec::remove', 'alloc::vec::Vec::<T, A>::swap_remove': 'Vec::swap_remove',
    'alloc::vec::Vec::<T, A>::insert': 'Vec::insert', 'alloc::vec::Vec::<T, A>::drain': 'Vec::drain',
    'alloc::vec::Vec::<T, A>::split_off': 'Vec::split_off',
    'core::cell::RefCell::<T>::borrow': 'RefCell::borrow', 'core::cell::RefCell::<T>::borrow_mut': 'RefCell::borrow_mut',
    'core::str::<impl str>::split_at': 'str::split_at',
}
ALLOC_CALLS = {
    'alloc::vec::Vec::<T>::with_capacity': 'with_capacity', 'alloc::vec::Vec::<T, A>::reserve': 'reserve',
    'alloc::vec::Vec::<T, A>::reserve_exact': 'reserve_exact', 'alloc::vec::from_elem': 'vec![x; n]',
    'alloc::vec::Vec::<T, A>::resize': 'resize',
}
DIV_METHODS = {'wrapping_div', 'wrapping_rem', 'wrapping_div_euclid', 'wrapping_rem_euclid', 'div_euclid', 'rem_euclid',
               'overflowing_div', 'overflowing_rem', 'saturating_div', 'div_ceil', 'next_multiple_of'}
SWAP_OPS = {'Lt': 'Gt', 'Gt': 'Lt', 'Le': 'Ge', 'Ge': 'Le', 'Eq': 'Eq', 'Ne': 'Ne'}
INDEX_CALLS = {'core::ops::Index::index': 'index', 'core::ops::IndexMut::index_mut': 'index_mut'}


class Site:
    __slots__ = ('fn', 'bb', 'kind', 'expr', 'line', 'macro', 'ops', 'ty', 'status', 'why', 'key', 'detail', 'expr_nf', 'nfkey')

    def __init__(self, fn, bb, kind, expr, line, macro, ops=None, ty=None):
        self.fn = fn
        self.bb = bb
        self.kind = kind
        self.expr = expr
        self.line = line
        self.macro = macro
        self.ops = ops or []
        self.ty = ty
        self.status = 'open'
        self.why = ''
        self.key = None
        self.expr_nf = None
        self.nfkey = None
        self.detail = ''


def is_int_ty(t):
    return t in INT_TYPES


def _diverging_panic(path):
    return (path.startswith('core::panicking::') or path.startswith('std::rt::') or
            path.startswith('core::option::expect_failed') or path.startswith('core::result::unwrap_failed') or
            path.startswith('core::slice::index::') or path.startswith('alloc::raw_vec::') or
            path.startswith('alloc::alloc::handle_alloc_error') or path.startswith('core::str::slice_error_fail') or
            path.startswith('core::cell::panic_already') or path == 'std::process::abort' or
            path == 'core::intrinsics::abort')


def enumerate_sites(g, fn):
    """All panic-capable sites of one function body; each carries a second, name-free rendering of its expression
    (no local-variable names, no temporary numbers) from which the table key is built."""
    sites = _enumerate_sites(g, fn)
    fn.nf = True
    try:
        shadow = _enumerate_sites(g, fn)
    finally:
        fn.nf = False
    for s_, n_ in zip(sites, shadow):
        s_.expr_nf = n_.expr
    return sites


def _enumerate_sites(g, fn):
    sites = []
    S = g.strs
    for bi in sorted(fn.reach):
        stmts, t = fn.blocks[bi]
        k = t['k']
        if k == 'assert':
            m = t['m']
            kind = m[0]
            if kind == 'Overflow':
                ty = S[m[4]]
                expr = '%s %s %s' % (fn.fmt_op(m[2]), m[1], fn.fmt_op(m[3]))
                sites.append(Site(fn, bi, 'Overflow(%s)' % m[1], expr, t['line'], t.get('macro'), [m[2], m[3]], ty))
            elif kind == 'OverflowNeg':
                sites.append(Site(fn, bi, 'OverflowNeg', '-' + fn.fmt_op(m[1]), t['line'], t.get('macro'), [m[1]]))
            elif kind in ('DivisionByZero', 'RemainderByZero'):
                # operand is the dividend in MIR's message; find the divisor from the cond (Eq(divisor, 0))
                div = _divisor_of(fn, t)
                expr = '%s by %s' % (fn.fmt_op(m[1]), fn.fmt_op(div) if div else '?')
                sites.append(Site(fn, bi, kind, expr, t['line'], t.get('macro'), [m[1], div]))
            elif kind == 'BoundsCheck':
                expr = '%s[%s]' % (_indexed_name(fn, bi, t), fn.fmt_op(m[2]))
                sites.append(Site(fn, bi, 'BoundsCheck', expr, t['line'], t.get('macro'), [m[1], m[2]]))
            else:
                # MisalignedPointerDereference / NullPointerDereference: debug-only UB checks that rustc
                # inserts at raw-pointer dereferences; they belong to the unsafe audit (rule U), not to P
                pass
        elif k in ('call', 'tailcall'):
            f = t['f']
            if 'ptr' in f:
                continue
            path = f['path']
            res = f.get('res') or ''
            name = f.get('name')
            line = t['line']
            mac = t.get('macro')
            if path in ARITH_TRAITS:
                st = f.get('self') or ''
                base = st.replace('&mut ', '').replace('&', '')
                if f.get('self_param') or is_int_ty(base) or base.endswith('::Offset'):
                    # resolved to core integer impl or generic offset
                    if res and not res.lstrip('<&').startswith('core::') and not f.get('self_param'):
                        continue   # user-defined operator impl: analysed as its own body
                    op = ARITH_TRAITS[path]
                    args = t['a']
                    if 'Assign' in path:
                        lhs = _deref_text(fn, args[0])
                    else:
                        lhs = fn.fmt_op(args[0])
                    rhs = fn.fmt_op(args[1]) if len(args) > 1 else ''
                    expr = ('%s %s %s' % (lhs, op, rhs)) if rhs else ('%s %s' % (op, lhs))
                    sites.append(Site(fn, bi, 'OffsetArith(%s)' % op, expr, line, mac, args, base))
                elif base.startswith('core::num::Wrapping<') and ARITH_TRAITS[path] in ('Div', 'Rem'):
                    # Wrapping<T> wraps on overflow but still panics on a zero divisor
                    expr = '%s %s %s' % (fn.fmt_op(t['a'][0], 4), ARITH_TRAITS[path], fn.fmt_op(t['a'][1], 4))
                    sites.append(Site(fn, bi, 'divcall(Wrapping::%s)' % ARITH_TRAITS[path].lower(), expr, line, mac, t['a']))
            elif (res or path).startswith('core::num::') and name in DIV_METHODS and len(t['a']) == 2:
                expr = '%s.%s(%s)' % (fn.fmt_op(t['a'][0], 4), name, fn.fmt_op(t['a'][1], 4))
                sites.append(Site(fn, bi, 'divcall(%s)' % name, expr, line, mac, t['a']))
            elif path in PANIC_CALLS:
                expr = '%s.%s()' % (fn.fmt_op(t['a'][0], 4) if t['a'] else '', PANIC_CALLS[path])
                sites.append(Site(fn, bi, PANIC_CALLS[path], expr, line, mac, t['a']))
            elif path in ALLOC_CALLS:
                a = t['a'][-1] if t['a'] else None
                if path.endswith('with_capacity') or path.endswith('from_elem'):
                    a = t['a'][-1] if path.endswith('from_elem') else t['a'][0]
                expr = '%s(%s)' % (ALLOC_CALLS[path], fn.fmt_op(a, 4) if a else '')
                sites.append(Site(fn, bi, 'alloc', expr, line, mac, [a] if a else []))
            elif path in INDEX_CALLS:
                st = f.get('self') or ''
                if len(t['a']) >= 2:
                    ity = _operand_ty(fn, t['a'][1])
                    if ity == 'core::ops::RangeFull':
                        continue
                    if res and not res.lstrip('<&').startswith(('core::', 'alloc::', '[')):
                        continue    # user Index impl (own body analysed)
                    expr = '%s[%s]' % (_deref_text(fn, t['a'][0]), fn.fmt_op(t['a'][1], 4))
                    sites.append(Site(fn, bi, 'index', expr, line, mac, t['a'], ity))
            elif _diverging_panic(path) and t.get('t') is None:
                what = mac or path.split('::')[-1]
                sites.append(Site(fn, bi, 'panic(%s)' % what, _panic_cond_text(fn, bi), line, mac))
            elif _diverging_panic(res) and t.get('t') is None:
                what = mac or res.split('::')[-1]
                sites.append(Site(fn, bi, 'panic(%s)' % what, _panic_cond_text(fn, bi), line, mac))
    return sites


def _operand_ty(fn, op):
    if op[0] in ('c', 'm') and len(op[1]) == 1:
        return fn.ty(op[1][0])
    if op[0] == 'k':
        return fn.facts.strs[op[1]]
    return None


def _deref_text(fn, op):
    """text of the place a `&`/`&mut` operand points to"""
    if op[0] in ('c', 'm') and len(op[1]) == 1:
        sd = fn.single_def(op[1][0])
        if sd is not None and sd[1] != 'term' and sd[2][0] in ('ref', 'ptr'):
            return fn.fmt_place(sd[2][1], 5)
        if sd is not None and sd[1] != 'term' and sd[2][0] == 'use':
            return _deref_text(fn, sd[2][1])
    return fn.fmt_op(op, 4)


def _indexed_name(fn, bi, t):
    # the statement after the assert indexes some place with ['i', local]
    nxt = t.get('t')
    if nxt is not None:
        for st in fn.stmts(nxt):
            if st[0] == 'a':
                for pl in _places_in_rv(st[2]) + [st[1]]:
                    for j, pr in enumerate(pl[1:], 1):
                        if isinstance(pr, list) and pr[0] == 'i':
                            return fn.fmt_place(pl[:j], 4)
    return 'array'


def _places_in_rv(rv):
    out = []
    k = rv[0]
    if k in ('ref', 'ptr', 'cfd', 'discr'):
        out.append(rv[1])
    from .facts import rv_operands
    for o in rv_operands(rv):
        if o[0] in ('c', 'm'):
            out.append(o[1])
    return out


def _divisor_of(fn, t):
    c = t['c']
    if c[0] in ('c', 'm') and len(c[1]) == 1:
        sd = fn.single_def(c[1][0])
        if sd is not None and sd[1] != 'term' and sd[2][0] == 'bin' and sd[2][1] == 'Eq':
            return sd[2][2]
    return None


def _controlling_edge(fn, bi):
    """walk up single-predecessor chain from a panic block to the switch that decides it"""
    cur = bi
    for _ in range(8):
        ps = fn.pred[cur]
        if len(ps) != 1:
            return None
        p = ps[0]
        t = fn.term(p)
        if t['k'] == 'switch':
            return p, cur
        cur = p
    return None


def _panic_cond_text(fn, bi):
    ce = _controlling_edge(fn, bi)
    if ce is None:
        return 'unconditional'
    p, tgt = ce
    t = fn.term(p)
    vals = [v for v, s in t['v'] if s == tgt]
    d = fn.fmt_op(t['d'], 5)
    if vals:
        return 'when %s == %s' % (d, vals[0])
    return 'when %s not in %s' % (d, [v for v, _ in t['v']])


# ------------------------------------------------------------------------------------------

def discharge(site, ev):
    """Try to prove the site cannot panic. Sets site.status/why. ev = Eval for site.fn"""
    fn = site.fn
    k = site.kind
    bb = site.bb
    try:
        if k.startswith('Overflow('):
            op = k[9:-1]
            a_op, b_op = site.ops
            a = ev.val(a_op, bb)
            b = ev.val(b_op, bb)
            ty = site.ty
            tr = type_range(ty)
            if a is None:
                a = tr
            if b is None:
                b = tr
            if op in ('Shl', 'Shr'):
                bits = bits_of(ty)
                if b is not None and bits and 0 <= b[0] and b[1] < bits:
                    return _ok(site, 'interval: shift amount in %s < %d' % (b, bits))
                return
            if a is not None and b is not None and tr is not None:
                r = math_bin(op, a, b, ty)
                if r is not None and r[0] >= tr[0] and r[1] <= tr[1]:
                    return _ok(site, 'interval: %s %s %s = %s fits %s' % (a, op, b, r, ty))
                if op == 'Sub' and tr[0] == 0:
                    # remainder bound: b - (a % b) with the same b cannot underflow (a % b < b)
                    rd = _def_rv(fn, b_op)
                    if rd is not None and rd[0] == 'bin' and rd[1] == 'Rem' and ev.same(rd[3], a_op):
                        return _ok(site, 'remainder bound: x % b < b, so b - x % b cannot underflow')
                    # x - x / c
                    if rd is not None and rd[0] == 'bin' and rd[1] == 'Div' and ev.same(rd[2], a_op):
                        dv = ev.val(rd[3], bb)
                        if dv is not None and dv[0] >= 1 and a[0] >= 0:
                            return _ok(site, 'x - x / c with c >= 1 cannot underflow')
                    rel = ev.known_rel(a_op, b_op, bb)
                    if rel & {'Ge', 'Gt', 'Eq'}:
                        return _ok(site, 'guarded subtraction: dominating guard establishes lhs %s rhs' % sorted(rel))
                    # a - const with a >= const
                    if b[0] == b[1] and a[0] >= b[1]:
                        return _ok(site, 'interval: lhs >= %d' % b[1])
            return
        if k.startswith('OffsetArith('):
            op = k[12:-1]
            args = site.ops
            # operands: for *Assign the first is &mut place
            if len(args) < 2:
                return
            a_op = _deref_operand(fn, args[0]) if 'Assign' in fn.term(bb)['f']['path'] else args[0]
            b_op = args[1]
            a = ev.val(a_op, bb) if a_op else None
            b = ev.val(b_op, bb)
            tr = INT_TYPES['usize'] if not is_int_ty(site.ty) else INT_TYPES[site.ty]
            if a is None:
                a = tr
            if b is None:
                b = tr
            if op in ('Div', 'Rem'):
                if b[0] > 0:
                    return _ok(site, 'interval: divisor in %s' % (b,))
                return
            if op in ('Shl', 'Shr'):
                if 0 <= b[0] and b[1] < 64:
                    return _ok(site, 'interval: shift amount %s' % (b,))
                return
            r = math_bin(op, a, b, 'usize')
            if r is not None and r[0] >= tr[0] and r[1] <= tr[1]:
                return _ok(site, 'interval: %s %s %s = %s fits' % (a, op, b, r))
            if op == 'Sub' and a_op is not None:
                rel = ev.known_rel(a_op, b_op, bb)
                if rel & {'Ge', 'Gt', 'Eq'}:
                    return _ok(site, 'guarded subtraction: dominating guard establishes lhs %s rhs' % sorted(rel))
            return
        if k == 'OverflowNeg':
            a = ev.val(site.ops[0], bb)
            ty = _operand_ty(fn, site.ops[0])
            tr = type_range(ty) if ty else None
            if a is not None and tr is not None and a[0] > tr[0]:
                return _ok(site, 'interval: operand %s > MIN' % (a,))
            return
        if k in ('DivisionByZero', 'RemainderByZero'):
            d = site.ops[1]
            if d is None:
                return
            dv = ev.val(d, bb)
            if dv is not None and (dv[0] > 0 or dv[1] < 0):
                return _ok(site, 'interval/guard: divisor in %s' % (dv,))
            if ev.known_nonzero(d, bb):
                return _ok(site, 'guard: a dominating branch established divisor != 0')
            return
        if k == 'BoundsCheck':
            ln, ix = site.ops
            lv = ev.val(ln, bb)
            iv = ev.val(ix, bb)
            if lv is not None and iv is not None and iv[0] >= 0 and iv[1] < lv[0]:
                return _ok(site, 'interval: index %s < len %s' % (iv, lv))
            rel = ev.known_rel(ix, ln, bb)
            if 'Lt' in rel:
                return _ok(site, 'guarded index: dominating guard index < len')
            return
        if k == 'index' and len(site.ops) >= 2 and site.ty == 'usize':
            # `v[i]` on a Vec/slice/array with a dominating guard `i < v.len()` on the same container (no store to i or
            # a `&mut` use of the container in between is checked by `stable`)
            cont = _deref_text(fn, site.ops[0])
            ix = site.ops[1]
            # `v[x as usize]` guarded by `x < v.len() as u64`: compare in the wider type (x < len <= usize::MAX, so the cast is exact)
            ixs = [ix]
            rvd = _def_rv(fn, ix)
            if rvd is not None and rvd[0] == 'cast' and rvd[1] == 'IntToInt':
                ixs.append(rvd[2])
            for (opn, x, y, gb) in ev.cond_facts(bb):
                for lhs, rhs, o2 in ((x, y, opn), (y, x, SWAP_OPS.get(opn))):
                    if o2 != 'Lt' or not any(ev.same(lhs, i_) and ev.stable(i_, gb, bb) for i_ in ixs):
                        continue
                    rvr = _def_rv(fn, rhs)
                    if rvr is not None and rvr[0] == 'cast' and rvr[1] == 'IntToInt' and rvr[2][0] in ('c', 'm'):
                        rhs = rvr[2]
                    if rhs[0] in ('c', 'm') and len(rhs[1]) == 1:
                        sd = fn.single_def(rhs[1][0])
                        if sd is not None and sd[1] == 'term' and sd[2]['f'].get('name') == 'len' and sd[2]['a'] \
                                and _deref_text(fn, sd[2]['a'][0]) == cont and ev.stable(rhs, gb, bb):
                            return _ok(site, 'guarded index: dominating guard index < %s.len()' % cont)
            return
        if k.startswith('divcall('):
            d = site.ops[1]
            dv = ev.val(d, bb)
            if dv is not None and (dv[0] > 0 or dv[1] < 0):
                return _ok(site, 'interval: divisor in %s' % (dv,))
            if ev.known_nonzero(d, bb):
                return _ok(site, 'guard: a dominating branch established divisor != 0')
            return
        if k == 'alloc':
            if site.ops and site.ops[0] is not None:
                v = ev.val(site.ops[0], bb)
                if v is not None and v[0] >= 0 and v[1] <= 65536:
                    return _ok(site, 'interval: allocation size in %s' % (v,))
            return
        if k.startswith('panic('):
            ce = _controlling_edge(fn, bb)
            if ce is None:
                return
            p, tgt = ce
            t = fn.term(p)
            # is the edge p->tgt infeasible?
            dv = ev.val(t['d'], p)
            if dv is None:
                return
            vals = [v for v, s in t['v'] if s == tgt]
            if vals:
                if all(v < dv[0] or v > dv[1] for v in vals):
                    return _ok(site, 'interval: branch into panic infeasible (discriminant in %s)' % (dv,))
            else:
                listed = [v for v, _ in t['v']]
                if dv[1] - dv[0] < 64 and all(x in listed for x in range(dv[0], dv[1] + 1)):
                    return _ok(site, 'interval: otherwise-branch into panic infeasible (discriminant in %s)' % (dv,))
            # boolean condition built from a comparison: evaluate with ranges
            facts = ev._bool_facts(t['d'], bool(vals and vals[0] != 0) if vals else (t['v'] and t['v'][0][0] == 0), 6) \
                if ev.g.strs[t['ty']] == 'bool' else []
            for (opn, a_op, b_op) in facts:
                a = ev.val(a_op, p)
                b = ev.val(b_op, p)
                if a is None or b is None:
                    continue
                if _cmp_impossible(opn, a, b):
                    return _ok(site, 'interval: panic condition %s %s %s is infeasible' % (a, opn, b))
            return
    except RecursionError:
        return


def _def_rv(fn, op, depth=4):
    """rvalue that defines a temporary operand (copies followed)"""
    if op[0] not in ('c', 'm') or len(op[1]) != 1 or depth <= 0:
        return None
    sd = fn.single_def(op[1][0])
    if sd is None or sd[1] == 'term':
        return None
    rv = sd[2]
    if rv[0] == 'use':
        return _def_rv(fn, rv[1], depth - 1)
    return rv


def _cmp_impossible(opn, a, b):
    if opn == 'Lt':
        return a[0] >= b[1]
    if opn == 'Le':
        return a[0] > b[1]
    if opn == 'Gt':
        return a[1] <= b[0]
    if opn == 'Ge':
        return a[1] < b[0]
    if opn == 'Eq':
        return a[1] < b[0] or a[0] > b[1]
    if opn == 'Ne':
        return a[0] == a[1] == b[0] == b[1]
    return False


def _deref_operand(fn, op):
    if op[0] in ('c', 'm') and len(op[1]) == 1:
        sd = fn.single_def(op[1][0])
        if sd is not None and sd[1] != 'term' and sd[2][0] == 'ref':
            return ['c', sd[2][1]]
        if sd is not None and sd[1] != 'term' and sd[2][0] == 'use':
            return _deref_operand(fn, sd[2][1])
    return None


def _ok(site, why):
    site.status = 'ok'
    site.why = why


def assign_keys(sites):
    """key = fn | kind | expression text (no positions); ordinal for equal keys in block order"""
    cnt = Counter()
    cnf = Counter()
    for s in sites:
        base = '%s | %s | %s' % (s.fn.path, s.kind, s.expr)
        cnt[base] += 1
        s.key = base if cnt[base] == 1 else '%s #%d' % (base, cnt[base])
        nfb = '%s | %s | %s' % (s.fn.path, s.kind, getattr(s, 'expr_nf', None) or s.expr)
        cnf[nfb] += 1
        s.nfkey = nfb if cnf[nfb] == 1 else '%s #%d' % (nfb, cnf[nfb])


# ------------------------------------------------------------------------------------------
# Narrowing casts (rule N)

def narrowing_casts(g, fn):
    """IntToInt casts that can lose value bits or change sign."""
    out = []
    S = g.strs
    for bi in sorted(fn.reach):
        for st in fn.stmts(bi):
            if st[0] != 'a':
                continue
            rv = st[2]
            if rv[0] != 'cast' or rv[1] != 'IntToInt':
                continue
            sty, tty = S[rv[3]], S[rv[4]]
            sr, tr = type_range(sty), type_range(tty)
            if sr is None or tr is None:
                continue
            if sty == 'bool':
                continue
            if sr[0] >= tr[0] and sr[1] <= tr[1]:
                continue   # widening
            out.append((bi, st, sty, tty))
    return out
