"""EFF-lite: codec effect summaries.

For a region of a function's CFG (usually the blocks of one match arm) enumerate the success
paths (error exits of `?`, returns of Err(..) and diverging panic edges are cut) and record, per
path, the sequence of *codec atoms*: calls of Reader / Writer primitives, size helpers and named
sub-codecs.  Two summaries are compared as sets of atom sequences (or bags for size models).
No path condition is solved; a branch contributes both sides."""
from collections import Counter

READER_ATOMS = {
    'read_u8': 'B1', 'read_i8': 'B1', 'read_u16': 'B2', 'read_i16': 'B2', 'read_u32': 'B4', 'read_i32': 'B4',
    'read_u64': 'B8', 'read_i64': 'B8', 'read_u128': 'B16', 'read_f32': 'B4', 'read_f64': 'B8',
    'read_uleb128': 'ULEB', 'read_uleb128_u16': 'ULEB', 'read_uleb128_u32': 'ULEB', 'read_sleb128': 'SLEB',
    'skip_leb128': 'LEB', 'read_address': 'ADDR', 'read_address_size': 'B1', 'read_offset': 'OFF', 'read_sized_offset': 'OFFN',
    'read_word': 'WORD', 'read_length': 'WORD', 'read_initial_length': 'ILEN', 'read_null_terminated_slice': 'CSTR',
    'split': 'BYTES', 'skip': 'BYTES', 'read_slice': 'BYTES', 'read_uint': 'BN', 'read_u8_array': 'BARR',
    'truncate': 'TRUNC', 'empty': 'EMPTY',
}
WRITER_ATOMS = {
    'write_u8': 'B1', 'write_u16': 'B2', 'write_u32': 'B4', 'write_u64': 'B8', 'write_u128': 'B16',
    'write_uleb128': 'ULEB', 'write_sleb128': 'SLEB', 'write_udata': 'BN', 'write_sdata': 'BN', 'write_word': 'WORD',
    'write_address': 'ADDR', 'write_offset': 'OFF', 'write_offset_at': 'OFFAT', 'write_eh_pointer': 'EH',
    'write_eh_pointer_data': 'EHD', 'write': 'BYTES', 'write_at': 'BYTESAT', 'write_u8_at': 'B1AT', 'write_u16_at': 'B2AT',
    'write_u32_at': 'B4AT', 'write_u64_at': 'B8AT', 'write_udata_at': 'BNAT', 'write_initial_length': 'ILEN',
    'write_initial_length_at': 'ILENAT', 'write_uint': 'BN', 'write_reference': 'OFF',
}
SIZE_ATOMS = {'uleb128_size': 'ULEB', 'sleb128_size': 'SLEB', 'word_size': 'WORD', 'initial_length_size': 'ILEN',
              'len': 'BYTES'}
# named sub-codecs: calls that emit / consume a whole nested structure
SUBCODECS = {
    'write::op::Expression::write': 'EXPR',
    'write::loc::LocationListTable::write_expression' if False else 'write_expression': 'LEXPR',
    'write::line::LineString::write': 'LSTRING',
}
CONST_BYTES = {'B1': 1, 'B2': 2, 'B4': 4, 'B8': 8, 'B16': 16}


def is_reader_call(f):
    return f.get('trait') == 'read::reader::Reader' and f.get('name') in READER_ATOMS


def is_writer_call(f):
    return f.get('trait') == 'write::writer::Writer' and f.get('name') in WRITER_ATOMS


class Eff:
    def __init__(self, g, extra_atoms=None, max_paths=400):
        self.g = g
        self.extra = extra_atoms or {}      # callee name -> atom (named sub-codecs)
        self.max_paths = max_paths
        self._callee_memo = {}
        self._depth = 0

    def _err_block(self, fn, b, memo):
        """block can only lead to an Err return / panic (no success continuation)"""
        if b in memo:
            return memo[b]
        memo[b] = False
        stmts, t = fn.blocks[b]
        k = t['k']
        res = False
        if k == 'call':
            f = t['f']
            if f.get('name') == 'from_residual':
                res = True
            elif t.get('t') is None:
                res = True       # diverging call (panic)
            else:
                res = self._err_block(fn, t['t'], memo)
        elif k == 'unreachable':
            res = True
        elif k == 'goto':
            res = self._err_block(fn, t['t'], memo) or self._assigns_err(fn, b)
        elif k == 'ret':
            res = False
        elif k == 'switch':
            res = all(self._err_block(fn, s, memo) for s in fn.succ[b])
        elif k in ('drop', 'assert'):
            res = self._err_block(fn, t['t'], memo)
        if not res and self._assigns_err(fn, b):
            res = True
        memo[b] = res
        return res

    def _assigns_err(self, fn, b):
        for st in fn.stmts(b):
            if st[0] == 'a' and st[1] == [0] and st[2][0] == 'agg' and st[2][1][0] == 'adt':
                if self.g.strs[st[2][1][1]] == 'core::result::Result' and st[2][1][2] == 'Err':
                    return True
        return False

    def atom_of(self, fn, t):
        f = t['f']
        if 'ptr' in f:
            return None
        name = f.get('name')
        if is_reader_call(f):
            return self._with_arg(fn, t, READER_ATOMS[name])
        if is_writer_call(f):
            return self._with_arg(fn, t, WRITER_ATOMS[name])
        if name in self.extra:
            return self.extra[name]
        path = f.get('path', '')
        for suffix, atom in SUBCODECS.items():
            if path.endswith(suffix):
                return atom
        return None

    def _with_arg(self, fn, t, atom):
        """attach a constant argument where it determines the size (BN with const n)"""
        name = t['f'].get('name')
        if atom == 'BN' and name in ('write_udata', 'write_sdata') and len(t['a']) >= 3:
            a = t['a'][2]
            if a[0] == 'k' and isinstance(a[2].get('v'), int):
                return 'B%d' % a[2]['v']
        if atom == 'BYTES' and name == 'write' and len(t['a']) >= 2:
            n = _const_slice_len(fn, t['a'][1])
            if n is not None:
                return 'B%d' % n
        if atom == 'OFFN' and len(t['a']) >= 2:
            a = t['a'][1]
            if a[0] == 'k' and isinstance(a[2].get('v'), int):
                return 'B%d' % a[2]['v']
        if atom == 'BN' and name == 'read_uint' and len(t['a']) >= 2:
            a = t['a'][1]
            if a[0] == 'k' and isinstance(a[2].get('v'), int):
                return 'B%d' % a[2]['v']
        return atom

    def callee_seqs(self, fn, t, depth=2):
        """success-path atom sequences of a private in-crate callee that is handed the reader/writer
        (`&mut R` / `&mut W` argument); None = treat the call as effect-neutral"""
        f = t['f']
        if 'ptr' in f or f.get('trait') in ('read::reader::Reader', 'write::writer::Writer'):
            return None
        tgts = self.g.callee_targets(f)
        if len(tgts) != 1:
            return None
        cf = self.g.fns[tgts[0]]
        if cf.vis == 'pub' or cf.kind == 'Closure':
            return None
        # does it receive a reader / writer by mutable reference?
        ok = False
        for i in range(1, cf.argc + 1):
            ty = cf.ty(i)
            if ty in ('&mut R', '&mut W') or ty.startswith('&mut R') or ty.startswith('&mut W'):
                ok = True
        if not ok:
            return None
        key = tgts[0]
        if key in self._callee_memo:
            return self._callee_memo[key]
        self._callee_memo[key] = None       # recursion guard
        if self._depth >= depth:
            return None
        self._depth += 1
        try:
            ps = self.paths(cf, 0)
        finally:
            self._depth -= 1
        if len(ps) > 12 or any('*TOO-MANY-PATHS*' in p for p in ps):
            ps = {('CALL:%s' % cf.name,)}
        self._callee_memo[key] = ps
        return ps

    def paths(self, fn, entry, region=None, stop=None):
        """set of atom tuples over success paths from `entry` until leaving `region`
        (or reaching Return / a block in `stop`)."""
        memo_err = {}
        out = set()
        count = [0]
        loops = [False]

        def walk(b, seq, onpath):
            if count[0] > self.max_paths:
                return
            if self._err_block(fn, b, memo_err):
                return
            if region is not None and b not in region:
                out.add(tuple(seq))
                count[0] += 1
                return
            if stop is not None and b in stop:
                out.add(tuple(seq))
                count[0] += 1
                return
            if b in onpath:
                loops[0] = True
                out.add(tuple(seq + ['*LOOP*']))
                count[0] += 1
                return
            stmts, t = fn.blocks[b]
            k = t['k']
            onpath = onpath | {b}
            if k == 'call':
                a = self.atom_of(fn, t)
                if t.get('t') is None:
                    return
                if a is None:
                    subs = self.callee_seqs(fn, t)
                    if subs is not None:
                        for sub in subs:
                            walk(t['t'], seq + list(sub), onpath)
                        return
                nseq = seq + [a] if a else seq
                walk(t['t'], nseq, onpath)
            elif k == 'ret':
                out.add(tuple(seq))
                count[0] += 1
            elif k == 'switch':
                seen = set()
                for s in fn.succ[b]:
                    if s in seen:
                        continue
                    seen.add(s)
                    walk(s, seq, onpath)
            elif k in ('goto', 'drop', 'assert'):
                walk(t['t'], seq, onpath)
            else:
                return
        walk(entry, [], frozenset())
        if count[0] > self.max_paths:
            out.add(('*TOO-MANY-PATHS*',))
        return out

    def fn_paths(self, fn):
        return self.paths(fn, 0)


def _const_slice_len(fn, op, depth=5):
    """length of a `&[a, b, ..]` literal passed as a slice (through the unsizing cast)"""
    if op[0] not in ('c', 'm') or len(op[1]) != 1 or depth <= 0:
        return None
    sd = fn.single_def(op[1][0])
    if sd is None or sd[1] == 'term':
        return None
    rv = sd[2]
    if rv[0] in ('cast', ):
        import re as _re
        m = _re.match(r"^&(?:'\w+ )?\[u8; (\d+)\]$", fn.facts.strs[rv[3]])
        if m:
            return int(m.group(1))
        return _const_slice_len(fn, rv[2], depth - 1)
    if rv[0] == 'use':
        return _const_slice_len(fn, rv[1], depth - 1)
    if rv[0] == 'ref' and len(rv[1]) == 1:
        sd2 = fn.single_def(rv[1][0])
        if sd2 and sd2[1] != 'term' and sd2[2][0] == 'agg' and sd2[2][1][0] == 'array':
            return len(sd2[2][2])
    return None


def seqs_to_json(paths):
    return sorted([list(p) for p in paths])


def bag_of(seq):
    """normalise a byte-emitting sequence to (constant bytes, Counter of symbolic atoms)"""
    c = 0
    sym = Counter()
    for a in seq:
        if a in CONST_BYTES:
            c += CONST_BYTES[a]
        elif a.startswith('B') and a[1:].isdigit():
            c += int(a[1:])
        else:
            sym[a] += 1
    return (c, tuple(sorted(sym.items())))


# ---- symbolic size expressions -------------------------------------------------------------

def size_terms(fn, op, depth=12):
    """terms of an integer expression built with + from constants, size helpers and field reads.
    Returns (const, Counter(symbolic)) or None when something unexpected occurs."""
    g = fn.facts
    if op[0] == 'k':
        v = op[2].get('v') if isinstance(op[2], dict) else None
        if isinstance(v, int) and not isinstance(v, bool):
            return (v, Counter())
        return None
    if op[0] not in ('c', 'm') or depth <= 0:
        return None
    pl = op[1]
    if len(pl) == 2 and isinstance(pl[1], list) and pl[1][0] == 'f' and pl[1][1] == 0:
        sd = fn.single_def(pl[0])
        if sd and sd[1] != 'term' and sd[2][0] == 'bin' and sd[2][1] == 'AddWithOverflow':
            a = size_terms(fn, sd[2][2], depth - 1)
            b = size_terms(fn, sd[2][3], depth - 1)
            if a is None or b is None:
                return None
            return (a[0] + b[0], a[1] + b[1])
    if len(pl) == 1:
        sd = fn.single_def(pl[0])
        if sd is None:
            return (0, Counter({'?' + fn.fmt_place(pl, 2): 1}))
        if sd[1] == 'term':
            t = sd[2]
            name = t['f'].get('name')
            if name in SIZE_ATOMS:
                return (0, Counter({SIZE_ATOMS[name]: 1}))
            if name in ('from', 'into') and t['a']:
                return size_terms(fn, t['a'][0], depth - 1)
            if name == 'size' and t['a']:
                return (0, Counter({'SIZE(%s)' % (t['f'].get('self_adt') or '').split('::')[-1]: 1}))
            return (0, Counter({'?call:%s' % name: 1}))
        rv = sd[2]
        if rv[0] == 'use':
            return size_terms(fn, rv[1], depth - 1)
        if rv[0] == 'cast':
            return size_terms(fn, rv[2], depth - 1)
        if rv[0] == 'bin' and rv[1] in ('Add', 'AddUnchecked'):
            a = size_terms(fn, rv[2], depth - 1)
            b = size_terms(fn, rv[3], depth - 1)
            if a is None or b is None:
                return None
            return (a[0] + b[0], a[1] + b[1])
        return (0, Counter({'?' + fn.fmt_rv(rv, 2): 1}))
    # field read such as encoding.address_size
    txt = fn.fmt_place(pl, 3)
    if txt.endswith('address_size'):
        return (0, Counter({'ADDR': 1}))
    return (0, Counter({'?' + txt: 1}))
