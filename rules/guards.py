"""D / X rules that are pure dominance or set-agreement facts (C04, C05, C06, C07)."""
from . import structs as ST
from . import arms as A
from .ranges import Eval
from .spec import find_const_switch
from .facts import MissingAnchor


# ------------------------------------------------------------------------------------------ C05

def run_D5(rep, g):
    rep.rule('D5-covers', 'an FDE lookup can succeed only for a covering FDE: in UnwindSection::fde_for_address and '
             'EhHdrTable::fde_for_address every Ok(fde) construction is dominated by the true edge of fde.contains(address), and both '
             'unwind_info_for_address entry points obtain their FDE only through fde_for_address')
    paths = [p for p in g.fns if p.endswith('::fde_for_address') and g.fns[p].kind == 'AssocFn' and
             ('UnwindSection' in p or 'EhHdrTable' in p)]
    rep.floor('D5-covers', 'fde_for_address implementations', len(paths), 2)
    for p in sorted(paths):
        fn = g.fns[p]
        oks = []
        for bi in sorted(fn.reach):
            for st in fn.stmts(bi):
                if st[0] == 'a' and st[1] == [0] and st[2][0] == 'agg' and st[2][1][0] == 'adt' and st[2][1][2] == 'Ok':
                    oks.append((bi, st))
        n = 0
        for bi, st in oks:
            n += 1
            ok = _dominated_by_true_call(fn, bi, 'contains')
            rep.check('D5-covers', '%s|Ok#%d' % (p, n), ok, 'Ok(fde) at bb%d must be dominated by the true edge of contains(address)' % bi,
                      fn.loc(st[3]), why='dominated by fde.contains(address) == true')
        if not oks:
            rep.bad('D5-covers', p + '|no-ok', 'no Ok(..) construction found (the result is forwarded unchecked?)', fn.loc())
    for p in sorted(q for q in g.fns if q.endswith('::unwind_info_for_address') and g.fns[q].kind == 'AssocFn' and ('UnwindSection' in q or 'EhHdrTable' in q)):
        fn = g.fns[p]
        names = [t['f'].get('name') for bi, t in fn.calls() if 'ptr' not in t['f']]
        rep.check('D5-covers', p + '|via-fde_for_address', 'fde_for_address' in names and 'fde_from_offset' not in names and 'lookup' not in names,
                  'calls %s' % sorted(set(n for n in names if n)), fn.loc(), why='obtains the FDE only through fde_for_address')


def _dominated_by_true_call(fn, b, callee):
    for d in fn.dom.get(b, ()):
        t = fn.term(d)
        if t['k'] != 'switch':
            continue
        dd = t['d']
        if dd[0] in ('c', 'm') and len(dd[1]) == 1:
            sd = fn.single_def(dd[1][0])
            if sd and sd[1] == 'term' and sd[2]['f'].get('name') == callee:
                for v, tgt in t['v'] + [[None, t['o']]]:
                    if ST.dominated_by_edge(fn, d, tgt, b):
                        truth = (v != 0) if v is not None else ([x for x, _ in t['v']] == [0])
                        if truth:
                            return True
    return False


def _accepted_consts(g, fn, const_ty, which):
    """constants of a newtype that a validator's match lets through (arms that do not return false)"""
    sw, t = find_const_switch(fn, const_ty, which)
    names = g.const_names(const_ty)
    return {v: names.get(v, hex(v)) for v, tgt in t['v']}, fn.term(t['o'])


def run_X1(rep, g):
    rep.rule('X1', 'validator ⊆ handler: the pointer-encoding formats and applications that DwEhPe::is_valid_encoding accepts are a subset '
             'of those parse_encoded_value / parse_encoded_pointer have an arm for (so their unreachable!() cannot be reached), and every '
             'call of parse_encoded_pointer-family decoding is preceded by the validity check')
    val = g.fn('constants::DwEhPe::is_valid_encoding')
    try:
        fmt_ok, _ = _accepted_consts(g, val, 'constants::DwEhPe', 0)
        app_ok, _ = _accepted_consts(g, val, 'constants::DwEhPe', 1)
    except MissingAnchor as e:
        # the obligation "accepted ⊆ handled" needs the accepted set; a validator that no longer enumerates the
        # constants it lets through (a mask test, a range) leaves it unproven — reported like any unproven site
        rep.bad('X1', 'validator-enumerates', 'DwEhPe::is_valid_encoding no longer decides by matching the DW_EH_PE_* format and application '
                'constants (%s): the set of encodings it accepts cannot be enumerated, so "accepted ⊆ handled by parse_encoded_value/pointer" is not established' % e,
                val.loc())
        return
    rep.ok('X1', 'validator-enumerates', 'is_valid_encoding matches on %d format and %d application constants' % (len(fmt_ok), len(app_ok)), val.loc(),
           why='accepted sets enumerable')
    pv = g.fn('read::cfi::parse_encoded_value')
    pp = g.fn('read::cfi::parse_encoded_pointer')
    fmt_handled, _ = _accepted_consts(g, pv, 'constants::DwEhPe', 0)
    app_handled, _ = _accepted_consts(g, pp, 'constants::DwEhPe', 0)
    rep.floor('X1', 'formats accepted by is_valid_encoding', len(fmt_ok), 9)
    rep.floor('X1', 'applications accepted by is_valid_encoding', len(app_ok), 5)
    for v, nm in sorted(fmt_ok.items()):
        rep.check('X1', 'format|' + nm, v in fmt_handled, 'format %s (0x%x) accepted by the validator; parse_encoded_value handles %s'
                  % (nm, v, sorted(fmt_handled.values())), pv.loc(), why='has an arm in parse_encoded_value')
    for v, nm in sorted(app_ok.items()):
        # DW_EH_PE_aligned is accepted by the validator but rejected explicitly before the match
        handled = v in app_handled or _explicit_reject(g, pp, nm)
        rep.check('X1', 'application|' + nm, handled, 'application %s (0x%x) accepted by the validator; parse_encoded_pointer handles %s'
                  % (nm, v, sorted(app_handled.values())), pp.loc(), why='has an arm (or an explicit error exit) in parse_encoded_pointer')
    # the validity check precedes decoding inside parse_encoded_pointer
    valid_calls = [bi for bi, t in ST.calls_named(pp, 'is_valid_encoding')]
    decode_calls = [bi for bi, t in ST.calls_named(pp, 'parse_encoded_value')]
    rep.check('X1', 'validate-before-decode', bool(valid_calls) and bool(decode_calls) and ST.must_precede(pp, valid_calls, decode_calls),
              'is_valid_encoding at %s, parse_encoded_value at %s' % (valid_calls, decode_calls), pp.loc(),
              why='every path to parse_encoded_value passes the validity check')
    # every call of parse_encoded_value: the encoding operand was validated where it was read, and omit was excluded
    from .reloc import origins
    ncall = 0
    for p, f in sorted(g.fns.items()):
        for bi, t in f.calls():
            if 'ptr' in t['f'] or t['f'].get('name') != 'parse_encoded_value':
                continue
            ncall += 1
            enc = t['a'][0]
            og = origins(f, enc)
            evf = Eval(f)
            validated = False
            why = ''
            if 'CALL:parse_pointer_encoding' in og:
                validated, why = True, 'read with parse_pointer_encoding (validates)'
            if not validated and og & {'PARAM'}:
                vc = [b for b, tt in ST.calls_named(f, 'is_valid_encoding')]
                if vc and ST.must_precede(f, vc, [bi]):
                    validated, why = True, 'is_valid_encoding precedes in this function'
            if not validated and ('FIELD' in og or any(x.startswith('CALL:') for x in og)):
                # value comes from a stored field: all stores of DwEhPe-typed fields named *encoding must be parse_pointer_encoding results
                ok_f = True
                nst = 0
                for (fn2, bb2, kind2, st2) in ST.field_stores(g, 'read::cfi::Augmentation', 'fde_address_encoding'):
                    if fn2.impl_trait in ('core::clone::Clone', 'core::default::Default'):
                        continue
                    nst += 1
                    if kind2 == 'aggregate':
                        idx = st2[2][1][4].index('fde_address_encoding')
                        o2 = origins(fn2, st2[2][2][idx])
                    elif kind2 == 'assign' and st2[2][0] == 'agg' and st2[2][2]:
                        o2 = origins(fn2, st2[2][2][0])
                    elif kind2 == 'assign' and st2[2][0] == 'use':
                        o2 = origins(fn2, st2[2][1])
                    else:
                        o2 = {'?'}
                    if not (o2 <= {'CONST', 'CALL:parse_pointer_encoding'}):
                        ok_f = False
                if ok_f and nst:
                    validated, why = True, 'Augmentation.fde_address_encoding is stored only from parse_pointer_encoding results'
            # omit excluded: comparison with DW_EH_PE_omit on a dominating edge, or a preceding parse_encoded_pointer on the same operand
            omit_ok = False
            for (o, a, b, gb) in evf.cond_facts(bi):
                if 'DW_EH_PE_omit' in evf.canon(a) + evf.canon(b) or 'const:255' in (evf.canon(a), evf.canon(b)):
                    omit_ok = True
            pre = [b for b, tt in ST.calls_named(f, 'parse_encoded_pointer') if evf.canon(tt['a'][0]) == evf.canon(enc)]
            if pre and ST.must_precede(f, pre, [bi]):
                omit_ok = True
            if f.path == 'read::cfi::parse_encoded_pointer':
                omit_ok = _explicit_reject(g, f, 'DW_EH_PE_omit')
            rep.check('X1', 'call|%s' % p, validated and omit_ok,
                      'encoding operand origins %s; validated: %s; omit excluded: %s' % (sorted(og), why or 'NO', omit_ok), f.loc(t['line']),
                      why='operand validated (%s) and DW_EH_PE_omit excluded before decoding' % why)
    rep.floor('X1', 'call sites of parse_encoded_value', ncall, 3)


def _explicit_reject(g, fn, const_name):
    """the function compares against the named constant and has an error exit (e.g. `== DW_EH_PE_aligned -> Err`)"""
    try:
        want = g.const_value(const_name)
    except Exception:
        want = None
    for bi in fn.reach:
        for st in fn.stmts(bi):
            if st[0] == 'a' and st[2][0] == 'use' and st[2][1][0] == 'k' and isinstance(st[2][1][2], dict):
                c = st[2][1][2]
                if str(c.get('named') or '').startswith('promoted') and want is not None and c.get('v') == want:
                    return True
    for bi in fn.reach:
        for st in fn.stmts(bi):
            if st[0] == 'a':
                from .facts import rv_operands
                for o in rv_operands(st[2]):
                    if o[0] == 'k' and isinstance(o[2], dict) and (o[2].get('named') or '').endswith(const_name):
                        return True
        t = fn.term(bi)
        if t['k'] == 'call':
            for o in t['a']:
                if o[0] == 'k' and isinstance(o[2], dict) and (o[2].get('named') or '').endswith(const_name):
                    return True
    return False


# ------------------------------------------------------------------------------------------ C07

def run_D7(rep, g):
    rep.rule('D7-limit', 'iteration limit: in Evaluation::evaluate_internal every cycle that contains the call of evaluate_one_operation also '
             'contains the increment of self.iteration and the comparison with max_iterations, both before it; Operation::parse is called from '
             'exactly two places of Evaluation (the per-iteration decode and the one extra decode after a location-completing operation)')
    fn = g.fn('read::op::Evaluation::<R, S>::evaluate_internal')
    from .term import natural_loops
    loops = natural_loops(fn)
    evals = [bi for bi, t in ST.calls_named(fn, 'evaluate_one_operation')]
    incs = []
    cmps = []
    ev = Eval(fn)
    for bi in sorted(fn.reach):
        for st in fn.stmts(bi):
            if st[0] == 'a' and len(st[1]) > 1 and isinstance(st[1][-1], list) and st[1][-1][0] == 'f' and st[1][-1][2] == 'iteration':
                incs.append(bi)
            if st[0] == 'a' and st[2][0] == 'bin' and st[2][1] in ('Gt', 'Ge', 'Lt', 'Le'):
                a, b = ev.canon(st[2][2]), ev.canon(st[2][3])
                if 'iteration' in a + b and 'max_iterations' in a + b:
                    cmps.append(bi)
    ok = bool(evals) and bool(incs) and bool(cmps)
    if ok:
        for e in evals:
            in_loop = [h for h, body in loops.items() if e in body]
            ok = ok and bool(in_loop)
            for h in in_loop:
                body = loops[h]
                ok = ok and any(i in body for i in incs) and any(c in body for c in cmps)
            # the increment precedes the operation on every path; the limit test lies between them (it is
            # skipped only when no limit is set: `if let Some(max) = self.max_iterations && ..`)
            ok = ok and ST.must_precede(fn, incs, [e])
            ok = ok and all(ST.must_precede(fn, incs, [c]) for c in cmps) and any(e in fn.reachable_from(c, removed=set(incs)) for c in cmps)
    rep.check('D7-limit', 'increment-and-compare-before-each-operation', ok,
              'evaluate_one_operation at %s, iteration stores at %s, limit comparisons at %s' % (evals, incs, cmps), fn.loc(),
              why='increment and limit test precede evaluate_one_operation in every cycle')
    parses = []
    for p, f in g.fns.items():
        if f.impl_self_adt == 'read::op::Evaluation':
            for bi, t in f.calls():
                if 'ptr' not in t['f'] and t['f'].get('name') == 'parse' and (t['f'].get('self_adt') == 'read::op::Operation'):
                    parses.append(p)
    rep.check('D7-limit', 'two-decodes', len(parses) == 2, 'Operation::parse called from %s' % sorted(parses), fn.loc(), why='exactly the two documented decode sites')
    rep.rule('D7-branch', 'branch targets: compute_pc skips only after the bounds test of the new offset, and Bra/Skip obtain the new pc only from compute_pc')
    cp = g.fn('read::op::compute_pc')
    skips = [bi for bi, t in ST.calls_named(cp, 'skip')]
    evc = Eval(cp)
    ok2 = bool(skips)
    for s_ in skips:
        facts = [(o, evc.canon(a), evc.canon(b)) for (o, a, b, gb) in evc.cond_facts(s_)]
        ok2 = ok2 and any(o in ('Le', 'Lt', 'Ge', 'Gt') and 'len(' in a + b for (o, a, b) in facts)
    rep.check('D7-branch', 'compute_pc-bounds', ok2, 'skip blocks %s' % skips, cp.loc(), why='skip dominated by the comparison with bytecode.len()')
    callers = sorted({p for p, f in g.fns.items() for bi, t in f.calls() if 'ptr' not in t['f'] and t['f'].get('name') == 'compute_pc'})
    rep.check('D7-branch', 'compute_pc-callers', callers == ['read::op::Evaluation::<R, S>::evaluate_one_operation'],
              'compute_pc is called from %s' % callers, cp.loc(), why='single caller')


# ------------------------------------------------------------------------------------------ C04

def run_D4(rep, g):
    rep.rule('D4-monotone', 'every store to LineRow.address is (a) the Ok value of add_sized(self.address, ..) [checked, non-decreasing, within the '
             'address size], (b) the SetAddress operand on the edge where `address < self.address || address >= min_tombstone` is false, or (c) the '
             'initial 0 of LineRow::new; stores (a) are skipped while the tombstone flag is set')
    ADT = 'read::line::LineRow'
    n = 0
    for (fn, bb, kind, st) in ST.field_stores(g, ADT, 'address'):
        if fn.impl_trait in ('core::clone::Clone',):
            continue
        n += 1
        key = 'address-store|%s|%s' % (fn.path, kind)
        ev = Eval(fn)
        if kind == 'aggregate':
            idx = st[2][1][4].index('address')
            v = ev.val(st[2][2][idx], bb)
            rep.check('D4-monotone', key, v == (0, 0) and fn.name == 'new', 'constructor stores address = %s in %s' % (v, fn.path), fn.loc(st[3]), why='initial address 0')
            continue
        if kind != 'assign':
            rep.bad('D4-monotone', key, 'LineRow.address is written through %s in %s' % (kind, fn.path), fn.loc())
            continue
        txt = ev.canon(st[2][1]) if st[2][0] == 'use' else fn.fmt_rv(st[2], 4)
        if 'add_sized' in txt and 'wrapping' not in txt:
            # must be guarded by !tombstone
            facts = [(o, ev.canon(a), ev.canon(b)) for (o, a, b, gb) in ev.cond_facts(bb)]
            tomb = any('tombstone' in a + b for (o, a, b) in facts) or _guarded_by_field_false(fn, bb, 'tombstone')
            rep.check('D4-monotone', key + '|add_sized', tomb, 'address = %s; tombstone guard facts %s' % (txt, facts), fn.loc(st[3]),
                      why='checked add_sized of the old address, skipped for tombstoned sequences')
        elif fn.name == 'execute':
            # SetAddress: the store must be dominated by !self.tombstone where tombstone was computed from the two comparisons
            ok = _guarded_by_field_false(fn, bb, 'tombstone')
            cmp_ok = _tombstone_definition(fn)
            rep.check('D4-monotone', key + '|set_address', ok and cmp_ok, 'address = %s under !tombstone; tombstone := address < self.address || address >= min_tombstone: %s'
                      % (txt, cmp_ok), fn.loc(st[3]), why='guarded by the non-decreasing / below-tombstone test')
        else:
            rep.bad('D4-monotone', key, 'unexpected store `%s` to LineRow.address in %s' % (txt, fn.path), fn.loc(st[3]))
    rep.floor('D4-monotone', 'stores to LineRow.address', n, 4)


def _guarded_by_field_false(fn, b, field):
    """block dominated by the false edge of a switch on self.<field> (a bool)"""
    for d in fn.dom.get(b, ()):
        t = fn.term(d)
        if t['k'] != 'switch':
            continue
        txt = fn.fmt_op(t['d'], 5)
        if field not in txt:
            continue
        for v, tgt in t['v'] + [[None, t['o']]]:
            if ST.dominated_by_edge(fn, d, tgt, b):
                truth = (v != 0) if v is not None else ([x for x, _ in t['v']] == [0])
                if not truth:
                    return True
    return False


def _tombstone_definition(fn):
    """the value stored into self.tombstone in `execute` is built from `address < self.address` and
    `address >= min_tombstone(..)`"""
    ev = Eval(fn)
    lt = ge = False
    for bi in fn.reach:
        for st in fn.stmts(bi):
            if st[0] == 'a' and st[2][0] == 'bin' and st[2][1] in ('Lt', 'Ge', 'Gt', 'Le'):
                a, b = ev.canon(st[2][2]), ev.canon(st[2][3])
                if st[2][1] == 'Lt' and 'address' in a.lower() and 'self.address' in b:
                    lt = True
                if st[2][1] == 'Ge' and 'address' in a.lower() and ('min_tombstone' in b or 'wrapping_add' in b or 'ones_sized' in b):
                    ge = True
    return lt and ge


def run_D9(rep, g, prefixes=('write::cfi::',), floor=3):
    """D9: an operand packed into the low bits of an opcode byte (`DW_CFA_advance_loc.0 | delta as u8`) must be proven,
    by the guards dominating the site, to fit the bits the opcode leaves free; otherwise it silently changes the opcode."""
    from .summaries import Summaries
    rep.rule('D9', 'every `OPCODE | operand` whose OPCODE is a named DW_CFA_* constant with free low bits: the interval of the operand '
             'at that point (dominating guards applied) lies inside the free bits')
    S = Summaries(g)
    n = 0
    from collections import Counter
    cnt = Counter()
    for p in sorted(g.fns):
        if not any(p.startswith(x) for x in prefixes) or '::tests::' in p:
            continue
        fn = g.fns[p]
        ev = None
        for b in sorted(fn.reach):
            for st in fn.stmts(b):
                if st[0] != 'a' or st[2][0] != 'bin' or st[2][1] != 'BitOr':
                    continue
                a, c = st[2][2], st[2][3]
                for k_op, v_op in ((a, c), (c, a)):
                    nm = None
                    if k_op[0] == 'k' and isinstance(k_op[2], dict):
                        nm = k_op[2].get('named')
                    elif k_op[0] in ('c', 'm') and len(k_op[1]) == 1:
                        # `DW_CFA_x.0` is a copy of the field of a promoted constant
                        sd = fn.single_def(k_op[1][0])
                        for _ in range(3):
                            if sd is None or sd[1] == 'term' or sd[2][0] != 'use':
                                break
                            src = sd[2][1]
                            if src[0] == 'k':
                                if isinstance(src[2], dict):
                                    nm = src[2].get('named')
                                    k_op = src
                                break
                            sd = fn.single_def(src[1][0])
                    if not nm or 'DW_CFA_' not in str(nm):
                        continue
                    kv = k_op[2].get('v')
                    if not isinstance(kv, int) or kv == 0:
                        continue
                    free = (kv & -kv) - 1          # bits below the lowest set bit of the opcode
                    if ev is None:
                        ev = S.ev(fn)
                    r = ev.val(v_op, b)
                    n += 1
                    base = '%s | %s' % (fn.path, str(nm).split('::')[-1])
                    cnt[base] += 1
                    key = base if cnt[base] == 1 else '%s #%d' % (base, cnt[base])
                    if r is not None and r[0] >= 0 and r[1] <= free:
                        rep.ok('D9', key, 'operand in %s fits the %d free low bits of %s' % (r, free.bit_length(), str(nm).split('::')[-1]), fn.loc(st[3]), why='interval under dominating guards')
                    else:
                        rep.bad('D9', key, 'operand `%s` packed into %s can be %s, outside the free bits [0, %d]: it would alter the opcode'
                                % (fn.fmt_op(v_op, 4), str(nm).split('::')[-1], r, free), fn.loc(st[3]))
                    break
    rep.floor('D9', 'packed opcode operands', n, floor)
    return n


def run_X_size(rep, g):
    """X-size: the fixed size `get_attribute_size` advertises for a form (used by `skip_attributes` and `AttributeSpecification::size`)
    agrees with what `parse_attribute` consumes for that form — two sibling tables over the same constants."""
    from . import spec as SP
    from . import arms as A
    from .specs_registry import SPECS
    rep.rule('X-size', 'sibling agreement per DW_FORM: the size class get_attribute_size returns (constant k, address size, offset size, or None) '
             'equals the operand the attribute reader consumes for the form (Bk, ADDR/OFFN, OFF; None only for LEB/string/block forms)')
    fn = g.fn('read::abbrev::get_attribute_size')
    sw, t, by, nvals = SP.const_arm_groups(g, fn, 'constants::DwForm', 0)
    reader = SP.extract(g, next(s for s in SPECS if s['id'] == 'attr_parse'))
    n = 0
    for tgt, names in sorted(by.items()):
        region = A.arm_blocks(fn, sw, tgt, nvals)
        cls = set()
        for b in region:
            for st in fn.stmts(b):
                if st[0] != 'a':
                    continue
                rv = st[2]
                if rv[0] == 'agg' and rv[1][0] == 'adt' and rv[1][2] == 'None':
                    cls.add('VAR')
                for o in SP.rv_operands_all(rv):
                    if o[0] == 'k' and isinstance(o[2], dict) and isinstance(o[2].get('v'), int) and not isinstance(o[2].get('v'), bool) \
                            and g.strs[o[1]] == 'u8':
                        cls.add(o[2]['v'])
                    if o[0] in ('c', 'm'):
                        for p in o[1][1:]:
                            if isinstance(p, list) and p[0] == 'f' and p[2] == 'address_size':
                                cls.add('ADDR')
            tm = fn.term(b)
            if tm['k'] == 'call' and tm['f'].get('name') == 'word_size':
                cls.add('OFF')
        for nm in names:
            key = 'get_attribute_size|%s' % nm
            if nm not in reader:
                rep.bad('X-size', key, 'get_attribute_size has an arm for %s but the attribute reader has none' % nm, fn.loc())
                continue
            n += 1
            rcls = set()
            variable = False
            for seq in reader[nm]:
                if seq == []:
                    rcls.add(0)
                elif len(seq) == 1 and seq[0].startswith('B') and seq[0][1:].isdigit():
                    rcls.add(int(seq[0][1:]))
                elif seq in (['ADDR'], ['OFFN']):
                    rcls.add('ADDR')
                elif seq == ['OFF']:
                    rcls.add('OFF')
                else:
                    variable = True
            if cls == {'VAR'}:
                rep.check('X-size', key, variable, 'advertised None; reader consumes %s' % reader[nm], fn.loc(),
                          why='variable-length form on both sides')
                continue
            legacy = {'OFF'} if cls & {4, 8} else set()      # data4/data8 may be decoded as a section offset of the same width
            okc = (not variable) and cls <= rcls and rcls <= (cls | legacy)
            rep.check('X-size', key, okc, 'advertised size class %s; reader consumes %s' % (sorted(map(str, cls)), reader[nm]), fn.loc(),
                      why='same operand width on both sides')
    rep.floor('X-size', 'forms with an advertised size', n, 40)
    return n


def run_D10(rep, g):
    """D10: `ReaderAddress::add_sized` is the single primitive every monotone address advance goes through (line rows, unwind rows,
    range/location lists): its Ok value must come from `checked_add` and be returned only when the bits above the address size are clear."""
    from . import ctl as CT
    from .arms import ArmSummarizer
    rep.rule('D10', '<u64 as ReaderAddress>::add_sized: every Ok(..) it returns is computed by checked_add (never a wrapping/unchecked add) and is control '
             'dependent on the `address & !mask != 0` test being false; an overflow of the 64-bit add is an error exit')
    fn = g.fn('<u64 as read::reader::ReaderAddress>::add_sized')
    summ = ArmSummarizer(g)
    closure, _ = CT.control_deps(fn)
    n = 0
    for b in sorted(fn.reach):
        for st in fn.stmts(b):
            if st[0] != 'a' or st[1] != [0]:
                continue
            rv = st[2]
            if not (rv[0] == 'agg' and rv[1][0] == 'adt' and rv[1][2] == 'Ok'):
                continue
            n += 1
            ls = CT.leaves(fn, rv[2][0]) if rv[2] else set()
            from_checked = any(x.startswith('checked_add()') or x.startswith('branch()') for x in ls) and not any('wrapping' in x or 'unchecked' in x for x in ls)
            # the value must trace to checked_add: follow branch()/ok_or() wrappers
            chain_ok = _traces_to(fn, rv[2][0], 'checked_add') if rv[2] else False
            conds = []
            for s, l in closure.get(b, {}).items():
                sig, canon = CT.condition_sig(fn, s)
                conds.append(sig + '=' + '|'.join(sorted({y for x in l for y in canon(x)})))
            masked = any(c.startswith('Ne(') and 'BitAnd' in c and c.endswith('=0') for c in conds)
            rep.check('D10', 'add_sized|Ok#%d' % n, chain_ok and masked,
                      'Ok value leaves %s; traces to checked_add: %s; controlling conditions %s' % (sorted(ls), chain_ok, conds), fn.loc(st[3]),
                      why='checked 64-bit add, then the address-size mask test')
    rep.floor('D10', 'Ok returns of add_sized', n, 1)
    return n


def _traces_to(fn, op, callee, depth=10):
    """the operand's value is (a payload of) the result of `callee`, through copies, `?` (branch), ok_or/map_err and field projections"""
    if depth <= 0 or op[0] not in ('c', 'm'):
        return False
    base = op[1][0]
    ds = fn.defs.get(base, [])
    if not ds:
        return False
    ok = True
    for d in ds:
        if d[1] == 'term':
            f = d[2]['f']
            nm = f.get('name')
            if nm == callee:
                continue
            if nm in ('branch', 'ok_or', 'ok_or_else', 'map_err', 'from', 'into') and d[2]['a']:
                if _traces_to(fn, d[2]['a'][0], callee, depth - 1):
                    continue
            ok = False
        else:
            rv = d[2]
            if rv[0] == 'use' and _traces_to(fn, rv[1], callee, depth - 1):
                continue
            if rv[0] in ('ref', 'cfd') and _traces_to(fn, ['c', rv[1]], callee, depth - 1):
                continue
            ok = False
    return ok


def run_S_header(rep, g, pairs=(('read::lists::ListsHeader::size_for_encoding', 'read::lists::parse_header'),)):
    """S-header: a header-size model equals the bytes its parser consumes (constant bytes summed, symbolic atoms counted).
    `rnglists_base`/`loclists_base` defaults for split units are computed from this size."""
    from . import eff as E
    rep.rule('S-header', 'size model ≡ parser: the value returned by the header-size function (constant + symbolic terms) equals the bag of '
             'reader atoms on every success path of the header parser (TRUNC does not consume)')
    ef = E.Eff(g)
    n = 0
    for size_fn, parse_fn in pairs:
        sf, pf = g.fn(size_fn), g.fn(parse_fn)
        st = E.size_terms(sf, ['c', [0]])
        seqs = E.seqs_to_json(ef.paths(pf, 0))
        key = '%s~%s' % (size_fn.split('::')[-1], parse_fn.split('::')[-1])
        n += 1
        if st is None or not seqs:
            rep.bad('S-header', key, 'cannot summarise: size model %s, parser sequences %s' % (st, seqs), sf.loc())
            continue
        want = (st[0], tuple(sorted(st[1].items())))
        bags = set()
        for s_ in seqs:
            c, sym = E.bag_of([a for a in s_ if a != 'TRUNC'])
            bags.add((c, tuple(sorted(sym))))
        rep.check('S-header', key, bags == {want}, 'size model %s; parser consumes %s' % (want, sorted(bags)), sf.loc(),
                  why='bag equality of the size model and the parser')
    rep.floor('S-header', 'header size models', n, 1)
    return n


def _leb_loop_signature(fn):
    """(number of loops, shift amounts applied to an integer inside the loop, constants it is compared with, per-iteration increments)"""
    from .term import natural_loops
    loops = natural_loops(fn)
    shifts, cmps, incs = [], [], []
    for h, body in loops.items():
        for b in sorted(body):
            for st in fn.stmts(b):
                if st[0] != 'a' or st[2][0] != 'bin':
                    continue
                op, a, c = st[2][1], st[2][2], st[2][3]
                kc = c[2].get('v') if c[0] == 'k' and isinstance(c[2], dict) else None
                if op in ('Shr', 'ShrUnchecked') and isinstance(kc, int):
                    shifts.append(kc)
                elif op in ('Eq', 'Ne') and isinstance(kc, int) and not isinstance(kc, bool) and fn.ty(a[1][0]) in ('u64', 'i64') if a[0] in ('c', 'm') and len(a[1]) == 1 else False:
                    cmps.append(kc)
                elif op in ('Add', 'AddWithOverflow') and isinstance(kc, int):
                    incs.append(kc)
    return len(loops), sorted(shifts), sorted(set(cmps)), sorted(set(incs))


def run_X_leb(rep, g):
    """X-leb: the LEB128 size helpers walk the value exactly like the encoders they predict (same shift amounts per iteration, same
    termination constants, one byte counted per iteration)."""
    rep.rule('X-leb', 'sibling agreement: uleb128_size/sleb128_size and Leb128::unsigned/signed each consist of one loop that shifts the value by the '
             'same amounts per iteration, stops on the same constants and advances its byte count by one per iteration')
    pairs = [('leb128::write::uleb128_size', 'leb128::write::Leb128::unsigned'), ('leb128::write::sleb128_size', 'leb128::write::Leb128::signed')]
    for size_p, enc_p in pairs:
        sf, ef = g.fn(size_p), g.fn(enc_p)
        ss, es = _leb_loop_signature(sf), _leb_loop_signature(ef)
        okc = ss[0] == 1 and es[0] == 1 and ss[1] == es[1] and ss[2] == es[2] and 1 in ss[3] and 1 in es[3]
        rep.check('X-leb', '%s~%s' % (size_p.split('::')[-1], enc_p.split('::')[-1]), okc,
                  'size helper: loops %d, shifts %s, stop constants %s, increments %s; encoder: loops %d, shifts %s, stop constants %s, increments %s' % (ss + es),
                  sf.loc(), why='same loop skeleton')
    return 2
