"""T rules: termination / fusing of lazy iterators, recursion, (DOM + small path-sensitive
dataflow).  See DESIGN.md §2 "T".

The dataflow tracks, per program point, a *set* of abstract states (disjunctive, so that the
`let r = parse(); if r.is_err() { input.empty() } r` diamond keeps its correlation):
   E  the iterator's reader has been emptied on this path          (Reader::empty)
   P  at least one byte has been consumed on this path             (progress)
   Z  the reader was observed empty on this path                   (is_empty() true edge)
plus facts about locals holding Result / ControlFlow values:
   ok(x) / err(x)      x is known Ok/Continue resp. Err/Break
   te(x)               "x is Err  =>  E"     (x came from a callee with that summary)
   tp(x)               "x is Ok   =>  P"     (x came from a consuming primitive / callee)
   td(x)               x is the result of delegating to another instance that satisfies T1
"""
import re
from collections import defaultdict

READER = 'read::reader::Reader::'
# Reader methods that consume >= 1 byte whenever they return Ok.
CONSUME_ALWAYS = {
    'read_u8', 'read_i8', 'read_u16', 'read_i16', 'read_u32', 'read_i32', 'read_u64', 'read_i64',
    'read_u128', 'read_f32', 'read_f64', 'read_uleb128', 'read_uleb128_u16', 'read_uleb128_u32',
    'read_sleb128', 'read_initial_length', 'read_address_size', 'read_null_terminated_slice',
    'read_u8_array', 'read_uint', 'read_sized_offset', 'read_offset', 'read_length', 'read_word',
    'read_address',
}
# consume an amount chosen by an argument (may be 0): not counted as progress
CONSUME_MAYBE = {'skip', 'split', 'read_slice', 'truncate'}
PASS_THROUGH_OK = {'core::result::Result::<T, E>::map', 'core::result::Result::<T, E>::map_err',
                   'core::result::Result::<T, E>::and_then'}
PASS_THROUGH_ERR = {'core::result::Result::<T, E>::map', 'core::result::Result::<T, E>::map_err'}


def is_result_ty(t):
    return t.startswith('core::result::Result<') or t.startswith('core::ops::ControlFlow<')


def iterator_instances(g):
    """Query (not a list): inherent &self/&mut self methods named like iterator steps that
    return Result<Option<_>>, Result<bool> or Option<_>, on a type of gimli::read or the
    convert modules."""
    out = []
    for p, f in sorted(g.fns.items()):
        if f.kind != 'AssocFn' or f.impl_trait or not f.name:
            continue
        if not re.match(r'^(next|next_.*|nth|read_entry|read_row|read_unit|read_sequence|read_abbreviation)$', f.name):
            continue
        if f.argc < 1 or '&' not in f.ty(1):
            continue
        ret = f.ty(0)
        if not (ret.startswith('core::result::Result<core::option::Option') or
                ret.startswith('core::result::Result<bool')):
            continue
        if not (p.startswith('read::') or '::convert::' in p):
            continue
        out.append(f)
    return out


class TermAnalysis:
    def __init__(self, g):
        self.g = g
        self.memo = {}        # (kind, path) -> bool ; in-progress entries are False (pessimistic on cycles)
        self.instance_paths = set()
        self.assume_t1 = set()   # instances whose every T1 report is discharged by a reviewed entry

    def is_emptier(self, path):
        """method named `empty` all of whose paths call Reader::empty (or another emptier)"""
        k = ('emptier', path)
        if k in self.memo:
            return self.memo[k]
        self.memo[k] = False
        fn = self.g.fns.get(path)
        r = False
        if fn is not None:
            blocks = set()
            for bi, t in fn.calls():
                f = t['f']
                if f.get('trait') == 'read::reader::Reader' and f.get('name') == 'empty':
                    blocks.add(bi)
                elif self.g.callee_targets(f) and all(self.is_emptier(x) for x in self.g.callee_targets(f)):
                    blocks.add(bi)
            if blocks:
                seen = fn.reachable_from(0, removed=blocks)
                r = not any(fn.term(b)['k'] == 'ret' for b in seen)
        self.memo[k] = r
        return r

    def summ(self, kind, path):
        k = (kind, path)
        if k in self.memo:
            return self.memo[k]
        fn = self.g.fns.get(path)
        if fn is None or fn.kind == 'Closure' or not is_result_ty(fn.ty(0)):
            self.memo[k] = False
            return False
        if kind == 't1' and path not in self.instance_paths:
            self.memo[k] = False
            return False
        if kind == 't1' and path in self.assume_t1:
            self.memo[k] = True
            return True
        self.memo[k] = False
        r = not self.analyze(fn, kind)
        self.memo[k] = r
        return r

    # -- helpers ---------------------------------------------------------------------
    def _resolve_ref(self, fn, op):
        """operand that is `&x` / `&mut x` (through a temp) -> base local of x (whole local) or None"""
        if op[0] not in ('c', 'm'):
            return None
        pl = op[1]
        if len(pl) != 1:
            return None
        sd = fn.single_def(pl[0])
        if sd is None or sd[1] == 'term':
            return None
        rv = sd[2]
        if rv[0] == 'ref' and len(rv[1]) == 1:
            return rv[1][0]
        if rv[0] == 'use' and rv[1][0] in ('c', 'm') and len(rv[1][1]) == 1:
            return self._resolve_ref(fn, rv[1])
        return None

    def _self_field(self, fn, op):
        """first-level field of *self that a reference operand points into (None if it is not rooted at self)"""
        from .arms import ArmSummarizer
        if not hasattr(self, '_summ'):
            self._summ = ArmSummarizer(self.g)
        if op[0] not in ('c', 'm'):
            return None
        base, names = self._summ.root_of(fn, op[1], depth=10)
        if base == 1 and names:
            return names[0]
        return None

    def _derives_from_self(self, fn, op, depth=8):
        """does operand (a reference) point into *self (arg 1)?"""
        if op[0] not in ('c', 'm'):
            return False
        pl = op[1]
        base = pl[0]
        if base == 1:
            return True
        if depth <= 0:
            return False
        sd = fn.single_def(base)
        if sd is None:
            # multiple defs: any def deriving from self
            ds = fn.defs.get(base, [])
            return any(self._def_from_self(fn, d, depth - 1) for d in ds) if ds else False
        return self._def_from_self(fn, sd, depth - 1)

    def _def_from_self(self, fn, d, depth):
        if d[1] == 'term':
            return False
        rv = d[2]
        if rv[0] in ('ref', 'ptr', 'cfd'):
            return self._derives_from_self(fn, ['c', rv[1]], depth)
        if rv[0] == 'use':
            return self._derives_from_self(fn, rv[1], depth)
        return False

    def analyze(self, fn, want):
        """want in {'t1','t2','tp','te'}.  Returns list of (bb, reason) for failing returns."""
        g = self.g
        ret_is_result = is_result_ty(fn.ty(0))
        nblocks = len(fn.blocks)
        states = [set() for _ in range(nblocks)]
        init = (False, False, False, frozenset())
        states[0].add(init)
        work = [0]
        failures = []
        fail_seen = set()
        err_fields = []     # (block, fields of *self emptied/reset, delegated) per Err-returning state (t2)
        iters = 0
        while work:
            b = work.pop()
            iters += 1
            if iters > 20000:
                failures.append((b, 'analysis budget exceeded'))
                break
            stmts, term = fn.blocks[b]
            outs = defaultdict(set)
            for st0 in list(states[b]):
                E, P, Z, facts = st0
                facts = set(facts)
                for st in stmts:
                    if st[0] != 'a':
                        continue
                    pl, rv = st[1], st[2]
                    if len(pl) != 1:
                        if pl[0] == 1 and len(pl) == 3 and pl[1] == '*' and isinstance(pl[2], list) and pl[2][0] == 'f' \
                                and rv[0] in ('agg', 'use'):
                            facts.add(('ef', str(pl[2][2] if pl[2][2] is not None else pl[2][1])))   # `self.f = None / fresh value`
                        continue
                    x = pl[0]
                    facts = {f for f in facts if x not in f[1:]}
                    if x == 0:
                        facts = {f for f in facts if f[0] != 'src'}
                        facts.add(('src', 'B%d' % b))
                    k = rv[0]
                    if k == 'use' and rv[1][0] in ('c', 'm') and len(rv[1][1]) == 1:
                        y = rv[1][1][0]
                        for f in list(facts):
                            if f[0] in ('ok', 'err', 'te', 'tp', 'td', 'isempty', 'notempty', 'none') and f[1] == y:
                                facts.add((f[0], x) + f[2:])
                            if f[0] in ('iserr', 'isok', 'discr') and f[1] == y:
                                facts.add((f[0], x, f[2]))
                    elif k == 'use' and rv[1][0] == 'k':
                        v = rv[1][2].get('v')
                        if v == 0 and fn.ty(x) == 'bool':
                            facts.add(('none', x))
                    elif k == 'agg' and rv[1][0] == 'adt':
                        adt = g.strs[rv[1][1]]
                        var = rv[1][2]
                        if adt == 'core::result::Result':
                            facts.add(('ok' if var == 'Ok' else 'err', x))
                            if var == 'Ok' and rv[2]:
                                o = rv[2][0]
                                if o[0] in ('c', 'm') and len(o[1]) == 1 and ('none', o[1][0]) in facts:
                                    facts.add(('none', x))
                                if o[0] == 'k' and o[2].get('v') == 0:
                                    facts.add(('none', x))
                        elif adt == 'core::option::Option' and var == 'None':
                            facts.add(('none', x))
                    elif k == 'discr' and len(rv[1]) == 1:
                        facts.add(('discr', x, rv[1][0]))
                    elif k == 'un' and rv[1] == 'Not' and rv[2][0] in ('c', 'm') and len(rv[2][1]) == 1:
                        y = rv[2][1][0]
                        for f in list(facts):
                            if f[1] == y:
                                if f[0] == 'isempty':
                                    facts.add(('notempty', x))
                                elif f[0] == 'notempty':
                                    facts.add(('isempty', x))
                                elif f[0] == 'iserr':
                                    facts.add(('isok', x, f[2]))
                                elif f[0] == 'isok':
                                    facts.add(('iserr', x, f[2]))
                kterm = term['k']
                if kterm == 'call':
                    f = term['f']
                    d = term['d']
                    path = f.get('path', '')
                    name = f.get('name')
                    if len(d) == 1:
                        x = d[0]
                        facts = {ff for ff in facts if x not in ff[1:]}
                        if x == 0:
                            facts = {ff for ff in facts if ff[0] != 'src'}
                            facts.add(('src', 'B%d' % b))
                    else:
                        x = None
                    args = term['a']
                    if path.startswith(READER) or (f.get('trait') == 'read::reader::Reader'):
                        if name == 'empty':
                            E = True
                            fld = self._self_field(fn, args[0]) if args else None
                            if fld:
                                facts.add(('ef', fld))
                        elif name == 'is_empty' and x is not None:
                            facts.add(('isempty', x))
                        elif name in CONSUME_ALWAYS and x is not None:
                            facts.add(('tp', x))
                    elif path in ('core::ops::Try::branch',) and x is not None and args:
                        a = args[0]
                        if a[0] in ('c', 'm') and len(a[1]) == 1:
                            y = a[1][0]
                            for ff in list(facts):
                                if ff[0] in ('ok', 'err', 'te', 'tp', 'td') and ff[1] == y:
                                    facts.add((ff[0], x))
                    elif path == 'core::ops::FromResidual::from_residual' and x is not None:
                        facts.add(('err', x))
                    elif path in ('core::result::Result::<T, E>::is_err', 'core::result::Result::<T, E>::is_ok') and x is not None and args:
                        y = self._resolve_ref(fn, args[0])
                        if y is not None:
                            facts.add(('iserr' if path.endswith('is_err') else 'isok', x, y))
                    elif path in PASS_THROUGH_OK and x is not None and args:
                        a = args[0]
                        if a[0] in ('c', 'm') and len(a[1]) == 1:
                            y = a[1][0]
                            for ff in list(facts):
                                if ff[0] == 'tp' and ff[1] == y:
                                    facts.add(('tp', x))
                                if ff[0] == 'te' and ff[1] == y and path in PASS_THROUGH_ERR:
                                    facts.add(('te', x))
                                if ff[0] == 'td' and ff[1] == y and path in PASS_THROUGH_ERR:
                                    facts.add(('td', x))
                    else:
                        tgts = g.callee_targets(f)
                        if tgts and args and self._derives_from_self(fn, args[0]) and all(self.is_emptier(t) for t in tgts):
                            E = True
                            fld = self._self_field(fn, args[0])
                            if fld:
                                facts.add(('ef', fld))
                        if tgts and x is not None:
                            if all(self.summ('tp', t) for t in tgts):
                                facts.add(('tp', x))
                            if is_result_ty(fn.ty(x)) and all(self.summ('nofail', t) for t in tgts):
                                facts.add(('ok', x))
                            if args and self._derives_from_self(fn, args[0]) and all(self.summ('te', t) for t in tgts):
                                facts.add(('te', x))
                            if args and self._derives_from_self(fn, args[0]) and all(self.summ('t1', t) for t in tgts):
                                # delegated to another instance on a reader this iterator owns: that
                                # instance progressed, emptied or observed the end on every return
                                facts.add(('td', x))
                                P = True
                    nxt = term.get('t')
                    if nxt is not None:
                        outs[nxt].add((E, P, Z, frozenset(facts)))
                elif kterm == 'switch':
                    dop = term['d']
                    dl = dop[1][0] if dop[0] in ('c', 'm') and len(dop[1]) == 1 else None
                    listed = [v for v, _ in term['v']]
                    for v, tgt in term['v'] + [[None, term['o']]]:
                        E2, P2, Z2 = E, P, Z
                        f2 = set(facts)
                        if dl is not None:
                            for ff in list(facts):
                                if ff[1] != dl:
                                    continue
                                if ff[0] == 'discr':
                                    xx = ff[2]
                                    if is_result_ty(fn.ty(xx)):
                                        val = v
                                        if val is None:
                                            rest = {0, 1} - set(listed)
                                            val = rest.pop() if len(rest) == 1 else None
                                        if val == 0:
                                            f2.add(('ok', xx))
                                            if ('tp', xx) in facts:
                                                P2 = True
                                        elif val == 1:
                                            f2.add(('err', xx))
                                            if ('te', xx) in facts:
                                                E2 = True
                                elif ff[0] in ('isempty', 'notempty', 'iserr', 'isok'):
                                    truth = None
                                    if v is not None:
                                        truth = (v != 0)
                                    else:
                                        if listed == [0]:
                                            truth = True
                                        elif listed == [1]:
                                            truth = False
                                    if truth is None:
                                        continue
                                    kind = ff[0]
                                    if kind == 'notempty':
                                        kind, truth = 'isempty', not truth
                                    if kind == 'isok':
                                        kind, truth = 'iserr', not truth
                                    if kind == 'isempty' and truth:
                                        Z2 = True
                                    if kind == 'iserr':
                                        xx = ff[2]
                                        if truth:
                                            f2.add(('err', xx))
                                            if ('te', xx) in facts:
                                                E2 = True
                                        else:
                                            f2.add(('ok', xx))
                                            if ('tp', xx) in facts:
                                                P2 = True
                        # infeasible: ok & err on same local
                        infeasible = any(('ok', a[1]) in f2 for a in f2 if a[0] == 'err')
                        if not infeasible:
                            outs[tgt].add((E2, P2, Z2, frozenset(f2)))
                elif kterm == 'ret':
                    if ret_is_result:
                        st_ok = ('ok', 0) in facts
                        st_err = ('err', 0) in facts
                        reason = None
                        if want == 't2':
                            if not st_ok and not E and ('te', 0) not in facts:
                                reason = 'may return Err without emptying the reader'
                            elif not st_ok:
                                srcs_ = [int(ff[1][1:]) for ff in facts if ff[0] == 'src']
                                err_fields.append((srcs_[0] if srcs_ else b, frozenset(ff[1] for ff in facts if ff[0] == 'ef'),
                                                   ('te', 0) in facts))
                        elif want == 'te':
                            if not st_ok and not E and ('te', 0) not in facts:
                                reason = 'Err without empty'
                        elif want == 'nofail':
                            if not st_ok:
                                reason = 'may return Err'
                        elif want == 'tp':
                            if not st_err and not P and not E and ('tp', 0) not in facts:
                                reason = 'Ok without consuming'
                        elif want == 'tps':
                            # Ok(Some(_)) / Ok(true) implies progress; the end marker Ok(None)/Ok(false) is free
                            if not st_err and not P and not E and ('tp', 0) not in facts and ('none', 0) not in facts:
                                reason = 'Ok(Some) without consuming'
                        elif want == 't1':
                            if st_err or not st_ok:
                                # error (or unknown) return
                                if not (E or P or Z or ('te', 0) in facts or ('td', 0) in facts):
                                    reason = 'may return Err having neither consumed input nor emptied the reader (caller ignoring errors never finishes)'
                            if st_ok and reason is None:
                                if not (E or P or Z or ('none', 0) in facts or ('tp', 0) in facts or ('td', 0) in facts):
                                    reason = 'may return Ok(Some/true) without consuming input'
                        if reason:
                            srcs = [int(ff[1][1:]) for ff in facts if ff[0] == 'src']
                            sb = srcs[0] if srcs else b
                            if (sb, reason) not in fail_seen:
                                fail_seen.add((sb, reason))
                                failures.append((sb, reason))
                else:
                    for nxt in fn.term_targets(term):
                        outs[nxt].add((E, P, Z, frozenset(facts)))
            for nxt, sts in outs.items():
                cur = states[nxt]
                new = sts - cur
                if new:
                    if len(cur) + len(new) > 48:
                        # merge conservatively, but keep states apart that differ in E/P/Z or in
                        # what is known about the return place (their correlation is the point)
                        groups = {}
                        for s in cur | new:
                            r0 = frozenset(ff for ff in s[3] if (ff[1] == 0 and len(ff) == 2) or ff[0] in ('src', 'ef'))
                            k = (s[0], s[1], s[2], r0)
                            if k in groups:
                                groups[k] = groups[k] & s[3]
                            else:
                                groups[k] = set(s[3])
                        merged = {(k[0], k[1], k[2], frozenset(v)) for k, v in groups.items()}
                        if cur != merged:
                            states[nxt] = merged
                            work.append(nxt)
                    else:
                        cur |= new
                        work.append(nxt)
        if want == 't2' and err_fields:
            # contradiction rule: the error paths of one fused iterator must agree on which of its readers they empty or
            # reset -- a path that empties `input` but leaves `self.remaining_input` lets the next call carry on
            union = set()
            for _, flds, deleg in err_fields:
                union |= flds
            for sb, flds, deleg in err_fields:
                missing = union - flds
                if missing and not deleg:
                    reason = 'may return Err having emptied/reset only %s of the fields %s that its other error paths empty or reset' % (
                        sorted(flds), sorted(union))
                    if (sb, reason) not in fail_seen:
                        fail_seen.add((sb, reason))
                        failures.append((sb, reason))
        return failures


def sccs(nodes, edges):
    """Tarjan SCC (iterative). edges: node -> iterable of nodes."""
    index = {}
    low = {}
    onst = set()
    st = []
    out = []
    counter = [0]
    for root in nodes:
        if root in index:
            continue
        stack = [(root, iter(sorted(edges.get(root, ()))))]
        index[root] = low[root] = counter[0]
        counter[0] += 1
        st.append(root)
        onst.add(root)
        while stack:
            v, it = stack[-1]
            adv = False
            for w in it:
                if w not in nodes:
                    continue
                if w not in index:
                    index[w] = low[w] = counter[0]
                    counter[0] += 1
                    st.append(w)
                    onst.add(w)
                    stack.append((w, iter(sorted(edges.get(w, ())))))
                    adv = True
                    break
                elif w in onst:
                    low[v] = min(low[v], index[w])
            if adv:
                continue
            stack.pop()
            if stack:
                u = stack[-1][0]
                low[u] = min(low[u], low[v])
            if low[v] == index[v]:
                comp = []
                while True:
                    w = st.pop()
                    onst.discard(w)
                    comp.append(w)
                    if w == v:
                        break
                out.append(comp)
    return out


def natural_loops(fn):
    """back edges (t->h with h dominating t) -> loop header -> body set"""
    loops = {}
    for t in fn.reach:
        for h in fn.succ[t]:
            if fn.dominates(h, t):
                body = {h, t}
                st = [t]
                while st:
                    x = st.pop()
                    if x == h:
                        continue
                    for p in fn.pred[x]:
                        if p not in body and p in fn.reach:
                            body.add(p)
                            st.append(p)
                loops.setdefault(h, set()).update(body)
    return loops


def residual_origin(fn, b):
    """For a block that builds the function result: name what produced the value.
    `?` residual -> the callee whose Result was branched on; aggregate -> its text."""
    t = fn.term(b)
    if t['k'] == 'call' and t['f'].get('name') == 'from_residual':
        # walk back: pred switch -> discr(x) -> x = branch(y) -> def of y
        seen = set()
        cur = b
        for _ in range(6):
            ps = [p for p in fn.pred[cur] if p not in seen]
            if not ps:
                break
            p = ps[0]
            seen.add(p)
            pt = fn.term(p)
            if pt['k'] == 'switch':
                d = pt['d']
                if d[0] in ('c', 'm') and len(d[1]) == 1:
                    sd = fn.single_def(d[1][0])
                    if sd and sd[1] != 'term' and sd[2][0] == 'discr':
                        x = sd[2][1][0]
                        sdx = fn.single_def(x)
                        if sdx and sdx[1] == 'term' and sdx[2]['f'].get('name') == 'branch':
                            a = sdx[2]['a'][0]
                            return '?' + _value_origin(fn, a, 4)
                break
            cur = p
        return '?'
    if t['k'] == 'call' and len(t['d']) == 1 and t['d'][0] == 0:
        return (t['f'].get('name') or 'call') + '()'
    for st in reversed(fn.stmts(b)):
        if st[0] == 'a' and st[1] == [0]:
            return fn.fmt_rv(st[2], 2)
    return 'ret'


def _value_origin(fn, op, depth):
    if op[0] not in ('c', 'm') or depth <= 0:
        return fn.fmt_op(op, 1)
    pl = op[1]
    if len(pl) != 1:
        return fn.fmt_place(pl, 1)
    sd = fn.single_def(pl[0])
    if sd is None:
        return fn.fmt_place(pl, 1)
    if sd[1] == 'term':
        f = sd[2]['f']
        nm = f.get('name') or 'call'
        if nm in ('map', 'map_err', 'and_then', 'ok_or', 'ok_or_else') and sd[2]['a']:
            return _value_origin(fn, sd[2]['a'][0], depth - 1) + '.' + nm
        return nm
    rv = sd[2]
    if rv[0] == 'use':
        return _value_origin(fn, rv[1], depth - 1)
    return fn.fmt_rv(rv, 1)
