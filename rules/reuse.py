"""C20 rules: reset discipline of reusable state (structural)."""
from . import structs as ST
from . import arms as A

CTX = 'read::cfi::UnwindContext'
ITER_TYPES_QUERY_SUFFIX = ('Iter', 'Cursor', 'Tree', 'Rows', 'Raw', 'Evaluation', 'UnwindTable', 'UnwindContext', 'Instructions')
MUTABILITY_NEEDLES = ['core::cell::Cell<', 'core::cell::RefCell<', 'core::cell::UnsafeCell<', 'core::sync::atomic::', '*mut ',
                      'core::cell::OnceCell<', 'std::sync::Mutex<', 'std::sync::RwLock<']


def run_reset(rep, g):
    rep.rule('D-reset', 'UnwindContext::initialize calls reset() before anything else touches the context; reset() stores every '
             'field of UnwindContext; UnwindTable::new reaches initialize on every path; constructors are private')
    init = g.fn('read::cfi::UnwindContext::<T, S>::initialize')
    resets = [bi for bi, t in ST.calls_named(init, 'reset')]
    others = [bi for bi, t in init.calls() if 'ptr' in t['f'] or t['f'].get('name') not in ('reset',)]
    ok = bool(resets) and ST.must_precede(init, resets, others)
    rep.check('D-reset', 'initialize-resets-first', ok, 'reset() call blocks %s must precede every other call %s' % (resets, others[:6]),
              init.loc(), why='reset dominates all other calls of initialize')
    # reset stores all fields
    summ = A.ArmSummarizer(g)
    reset = g.fn('read::cfi::UnwindContext::<T, S>::reset')
    w, c, e = summ.summarize_blocks(reset, reset.reach, 1, depth=3)
    fields = ST.struct_fields(g, CTX)
    for f in fields:
        touched = any(x == f or x.startswith(f + '.') or x.startswith(f + '=') for x in w)
        # the stack is reset through clear() + try_push(default)
        if f == 'stack':
            touched = touched and 'clear' in c and 'try_push' in c
        rep.check('D-reset', 'reset-writes|' + f, touched, 'reset() writes %s, calls %s' % (sorted(w), sorted(c)), reset.loc(),
                  why='field %s re-initialised by reset' % f)
    rep.floor('D-reset', 'fields of UnwindContext', len(fields), 3)
    # constants: initial_rule = None, is_initialized = false
    rep.check('D-reset', 'reset-constants', 'is_initialized=0' in w, 'reset stores %s' % sorted(w), reset.loc(), why='is_initialized := false')
    # UnwindTable::new -> initialize on every path to Ok
    new = g.fn("read::cfi::UnwindTable::<'a, 'ctx, R, S>::new")
    inits = [bi for bi, t in ST.calls_named(new, 'initialize')]
    rets_ok = []
    for bi in new.reach:
        for st in new.stmts(bi):
            if st[0] == 'a' and st[1] == [0] and st[2][0] == 'agg' and st[2][1][0] == 'adt' and st[2][1][2] == 'Ok':
                rets_ok.append(bi)
        t = new.term(bi)
        if t['k'] == 'call' and t['d'] == [0] and t['f'].get('name') != 'from_residual':
            rets_ok.append(bi)
    rep.check('D-reset', 'table-new-initializes', bool(inits) and bool(rets_ok) and ST.must_precede(new, inits, rets_ok),
              'initialize blocks %s, Ok-return blocks %s' % (inits, rets_ok), new.loc(), why='every Ok return is preceded by ctx.initialize')
    for nm in ("read::cfi::UnwindTable::<'a, 'ctx, R, S>::new_for_fde", "read::cfi::UnwindTable::<'a, 'ctx, R, S>::new_for_cie"):
        f = g.fn(nm)
        rep.check('D-reset', 'private|' + nm.split('::')[-1], f.vis != 'pub', 'visibility of %s is %s' % (nm.split('::')[-1], f.vis), f.loc(),
                  why='not callable from outside, so a table cannot be built on an un-reset context')


def run_buffers(rep, g):
    rep.rule('D-buffer', 'reused buffers are cleared/overwritten: read_attributes clears before the first push; next_entry and '
             'EntriesTree::next null the cached entry before returning Err; EntriesTree::root re-seats input and depth before reading')
    ra = g.fn("read::unit::EntriesRaw::<'abbrev, R>::read_attributes")
    clears = [bi for bi, t in ST.calls_named(ra, 'clear')]
    pushes = [bi for bi, t in ST.calls_named(ra, 'push')]
    rep.check('D-buffer', 'read_attributes-clear-first', bool(clears) and bool(pushes) and ST.must_precede(ra, clears, pushes),
              'clear blocks %s, push blocks %s' % (clears, pushes), ra.loc(), why='attrs.clear() precedes every push')
    for path in ("read::unit::EntriesCursor::<'abbrev, R>::next_entry", "read::unit::EntriesTree::<'abbrev, R>::next"):
        fn = g.fn(path)
        nulls = [bi for bi, t in ST.calls_named(fn, 'set_null')]
        errs = []
        for bi in fn.reach:
            for st in fn.stmts(bi):
                if st[0] == 'a' and st[1] == [0] and st[2][0] == 'agg' and st[2][1][0] == 'adt' and st[2][1][2] == 'Err':
                    errs.append(bi)
            t = fn.term(bi)
            if t['k'] == 'call' and t['f'].get('name') == 'from_residual':
                errs.append(bi)
        # forwarded result: `result` returned after `if result.is_err() { set_null }`
        is_errs = [bi for bi, t in ST.calls_named(fn, 'is_err')]
        ok = bool(nulls) and (all(not ST.must_precede(fn, [], [b]) or ST.must_precede(fn, nulls, [b]) for b in errs)) and (errs or is_errs)
        rep.check('D-buffer', 'null-on-error|' + path.split('::')[-2] + '::' + path.split('::')[-1], bool(ok),
                  'set_null blocks %s, Err-return blocks %s, is_err checks %s' % (nulls, errs, is_errs), fn.loc(),
                  why='every Err construction is preceded by set_null (or the forwarded result is tested with is_err)')
    root = g.fn("read::unit::EntriesTree::<'abbrev, R>::root")
    summ = A.ArmSummarizer(g)
    w, c, e = summ.summarize_blocks(root, root.reach, 1, depth=1)
    reads = [bi for bi, t in ST.calls_named(root, 'read_entry')]
    stores = []
    for bi in root.reach:
        for st in root.stmts(bi):
            if st[0] == 'a' and len(st[1]) > 1:
                base, names = summ.root_of(root, st[1])
                if base == 1 and names and names[0] == 'input':
                    stores.append(bi)
    rep.check('D-buffer', 'root-reseats', 'input.depth=0' in w and bool(reads) and ST.must_precede(root, stores, reads),
              'root() writes %s; input stores at %s precede read_entry at %s' % (sorted(w), stores, reads), root.loc(),
              why='input and depth re-seated before reading the root entry')


def run_no_hidden_state(rep, g):
    rep.rule('D-state', 'no iterator / cursor / table / evaluation type of gimli::read contains interior mutability or raw mutable '
             'pointers (apart from the reader parameter R itself), so clones and resumed iterators cannot influence each other')
    n = 0
    for path, a in sorted(g.adts.items()):
        if not path.startswith('read::'):
            continue
        nm = path.split('::')[-1]
        if not any(nm.endswith(s) or s in nm for s in ITER_TYPES_QUERY_SUFFIX):
            continue
        n += 1
        hits = ST.type_mentions(g, path, MUTABILITY_NEEDLES)
        rep.check('D-state', 'no-interior-mutability|' + path, not hits, 'fields with shared mutable state: %s' % hits[:4],
                  '%s:%d' % (a['file'].replace('/repo/', ''), a['line']), why='no Cell/RefCell/UnsafeCell/atomic/*mut field (transitively)')
    rep.floor('D-state', 'iterator-like types queried', n, 40)
