"""Entry points of the analysis ("read roots", DESIGN.md §1.2 CG)."""


def read_roots(g):
    """Functions an external caller can invoke that parse / look up / unwind / evaluate / convert
    untrusted DWARF: every externally reachable item under read::*, leb128::read, endianity
    helpers, plus the convert API of write::*."""
    roots = []
    for p, f in g.fns.items():
        if f.kind == 'Closure':
            continue
        if not f.reachable_pub:
            continue
        # trait impl methods of public types are callable
        if f.name == 'write' and '::convert::' in p:
            continue    # serialising the converted unit is a writer entry point (C11-C16), not a conversion one
        if is_read_path(p) or is_convert_path(p, f):
            roots.append(p)
    return roots


def is_read_path(p):
    q = p.lstrip('<')
    return (q.startswith('read::') or q.startswith('leb128::read') or ' as read::' in p or
            q.startswith('common::') or q.startswith('endianity::') or q.startswith('constants::') or
            q.startswith('arch::') or q.startswith('case_fold::'))


def is_convert_path(p, f):
    if '::convert::' in p or p.endswith('::from') and 'write::' in p:
        return True
    if 'write::' in p and f.name in ('from', 'from_unit', 'convert', 'convert_with', 'read_line_program', 'from_dwarf'):
        return True
    return False
