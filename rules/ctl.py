"""Control-structure fingerprints of a function body.

`ctl`      for every event of the body (a call, a store into a field of *self, an explicit error value) the chain of
           branch conditions it is control dependent on (Ferrante/Ottenstein/Warren control dependence over the MIR CFG
           with the `?` error exits removed), each condition abstracted to <what is tested>=<which outcomes lead here>.
           "reserve_unit is called once per unit", "the parent edge is pushed whenever there is a parent", "the bound
           test is `<`, not `<=`" are all statements about this set: a new early `continue`, a call moved under an
           `else`, a flipped comparison change it although the sets of calls/stores/errors stay the same.
`carried`  the named locals whose value flows from one iteration of a loop into the next (live at the loop header and
           assigned inside the loop), with the nesting depth of the outermost loop that carries them.  "every list is
           encoded independently of the lists before it" is a statement about this set.

Both are abstractions of the resolved MIR, not of the text: renaming, reformatting, reordering independent statements,
`if a && b` vs nested ifs, `match` vs `if let` leave them unchanged.
"""
import re
from collections import defaultdict

from .arms import NOISE_CALLS
from .facts import rv_operands
from .term import natural_loops

CMP = {'Lt', 'Le', 'Gt', 'Ge', 'Eq', 'Ne'}


def _error_exit_blocks(fn):
    """blocks that only propagate an error upwards: the `from_residual` call of a desugared `?`"""
    out = set()
    for b in fn.reach:
        t = fn.term(b)
        if t['k'] == 'call' and t['f'].get('name') == 'from_residual':
            out.add(b)
        elif t['k'] == 'unreachable':       # the `otherwise` target of an exhaustive match
            out.add(b)
    # ... and the blocks that can do nothing but reach one (the move of the residual out of ControlFlow::Break)
    changed = True
    while changed:
        changed = False
        for b in fn.reach:
            if b not in out and fn.succ[b] and all(x in out for x in fn.succ[b]):
                out.add(b)
                changed = True
    return out


def _graph(fn):
    removed = _error_exit_blocks(fn)
    nodes = [b for b in fn.reach if b not in removed]
    ns = set(nodes)
    succ = {b: [s for s in dict.fromkeys(fn.succ[b]) if s in ns] for b in nodes}
    return nodes, succ


def postdominators(fn):
    """pdom[b] = set of blocks post-dominating b (incl. b) on the graph without error exits; EXIT = -1"""
    nodes, succ = _graph(fn)
    EXIT = -1
    rsucc = {b: list(ss) for b, ss in succ.items()}
    for b in nodes:
        if not rsucc[b]:
            rsucc[b] = [EXIT]
    # nodes that cannot reach EXIT (infinite loops): connect them so that the analysis is total
    can = {EXIT}
    changed = True
    pred = defaultdict(list)
    for b, ss in rsucc.items():
        for s in ss:
            pred[s].append(b)
    st = [EXIT]
    while st:
        x = st.pop()
        for p in pred[x]:
            if p not in can:
                can.add(p)
                st.append(p)
    for b in nodes:
        if b not in can:
            rsucc[b] = rsucc[b] + [EXIT]
    allb = set(nodes) | {EXIT}
    pdom = {b: set(allb) for b in nodes}
    pdom[EXIT] = {EXIT}
    changed = True
    order = sorted(nodes, reverse=True)
    while changed:
        changed = False
        for b in order:
            new = None
            for s in rsucc[b]:
                new = set(pdom[s]) if new is None else (new & pdom[s])
            new = (new or set()) | {b}
            if new != pdom[b]:
                pdom[b] = new
                changed = True
    return pdom, rsucc


def control_deps(fn):
    """block -> set of (switch block, frozenset of outcome labels that lead to the block)"""
    pdom, rsucc = postdominators(fn)
    direct = defaultdict(dict)
    for s, ss in rsucc.items():
        if s == -1 or len(set(ss)) < 2:
            continue
        t = fn.term(s)
        if t['k'] != 'switch':
            continue
        labelled = [(str(v), tgt) for v, tgt in t['v']] + [('_', t['o'])]
        for lab, tgt in labelled:
            if tgt not in pdom:
                continue
            # every block post-dominating the target but not strictly post-dominating the switch
            for b in pdom[tgt]:
                if b == -1:
                    continue
                if b != s and b in pdom[s]:
                    continue
                direct[b].setdefault(s, set()).add(lab)
    # transitive closure (least fixpoint; loops make the relation cyclic): a block inherits, from every condition it
    # depends on, the conditions that one depends on, with the outcomes that lead to that condition
    closure = {b: {s: set(l) for s, l in d.items()} for b, d in direct.items()}
    changed = True
    while changed:
        changed = False
        for b in sorted(closure):
            acc = closure[b]
            for s in sorted(list(acc)):
                if s == b:
                    continue
                for s2, l2 in closure.get(s, {}).items():
                    cur = acc.get(s2)
                    if cur is None:
                        acc[s2] = set(l2)
                        changed = True
                    elif not l2 <= cur:
                        cur |= l2
                        changed = True
    return closure, direct


_CLOSURE = re.compile(r'\{(closure|coroutine|async [a-z]+)@[^{}]*\}')


def _short_ty(s):
    # closure types print their source position: position- and checkout-dependent, never part of a fingerprint
    s = _CLOSURE.sub(r'{\1}', s)
    s = s.replace('&mut ', '').replace('&', '')
    head = s.split('<', 1)[0]
    return head.split('::')[-1]


def _proj(pl):
    out = []
    for p in pl[1:]:
        if isinstance(p, list) and p[0] == 'f':
            out.append(str(p[2]) if p[2] is not None else str(p[1]))
        elif isinstance(p, list) and p[0] == 'd':
            out.append(str(p[1]))
        elif isinstance(p, list) and p[0] == 'i':
            out.append('[]')
    return out


def _const_desc(o):
    c = o[2] if isinstance(o[2], dict) else {}
    if c.get('named') and not str(c['named']).startswith('promoted'):
        return str(c['named']).split('::')[-1]
    if 'fn' in c:
        return 'fn:' + str(c['fn']).split('::')[-1]
    v = c.get('v')
    return 'k%s' % v if v is not None and not isinstance(v, (dict, list)) else 'k'


def leaves(fn, o, depth=14, seen=None):
    """The values an operand is computed from, without any local-variable names: parameters (`self`, `arg2`) with
    their field paths, constants, callee names of call results, the operators and enum variants in between;
    a variable assigned in several places is `var:<type>` (its assignments are events of their own)."""
    if o[0] == 'k':
        return {_const_desc(o)}
    return place_leaves(fn, o[1], depth, seen)


def place_leaves(fn, pl, depth=14, seen=None):
    base = pl[0]
    proj = _proj(pl)
    suffix = ('.' + '.'.join(proj)) if proj else ''
    idx = set()
    for p in pl[1:]:
        if isinstance(p, list) and p[0] == 'i':
            idx |= place_leaves(fn, [p[1]], depth - 1, seen)
    if 1 <= base <= fn.argc:
        nm = 'self' if base == 1 and fn.impl_self_adt and fn.lname(1) in (None, 'self') else 'arg%d' % base
        return {nm + suffix} | idx
    seen = seen or frozenset()
    sd = fn.single_def(base) if base not in seen else None
    if sd is None or depth <= 0:
        ty = _short_ty(fn.ty(base)) if base < len(fn.locals) else '?'
        ndefs = len(fn.defs.get(base, []))
        return {('var:%s%s' % (ty, suffix)) if ndefs != 1 or depth > 0 else ('tmp:%s%s' % (ty, suffix))} | idx
    seen = seen | {base}
    if sd[1] == 'term':
        return {'%s()%s' % (sd[2]['f'].get('name') or 'fnptr', suffix)} | idx
    rv = sd[2]
    k = rv[0]
    out = set(idx)
    if k == 'use':
        sub = leaves(fn, rv[1], depth - 1, seen)
    elif k == 'cast':
        sub = leaves(fn, rv[2], depth - 1, seen) | {'as:' + _short_ty(fn.facts.strs[rv[4]])}
    elif k in ('ref', 'ptr', 'cfd'):
        sub = place_leaves(fn, rv[1], depth - 1, seen)
    elif k == 'bin':
        sub = leaves(fn, rv[2], depth - 1, seen) | leaves(fn, rv[3], depth - 1, seen) | {str(rv[1])}
    elif k == 'un':
        sub = leaves(fn, rv[2], depth - 1, seen) | {str(rv[1])}
    elif k == 'discr':
        sub = {'discr'} | place_leaves(fn, rv[1], depth - 1, seen)
    elif k == 'agg':
        sub = set()
        kd = rv[1]
        if kd[0] == 'adt':
            sub.add('%s::%s' % (fn.facts.strs[kd[1]].split('::')[-1], kd[2]))
        else:
            sub.add(str(kd[0]))
        for x in rv[2]:
            sub |= leaves(fn, x, depth - 1, seen)
    elif k == 'rep':
        sub = leaves(fn, rv[1], depth - 1, seen) | {'rep'}
    else:
        sub = {str(k)}
    if suffix:
        # a projection of a computed value: keep the path on the leaves it is taken from
        sub = {x + suffix if (x.startswith(('self', 'arg', 'var:', 'tmp:')) or x.endswith(')')) else x for x in sub}
    return out | sub


def _fmt(ls):
    return ','.join(sorted(ls))


PRED_CALLS = {   # Option/Result predicates are discriminant tests: (tested type, label of `true`, label of `false`)
    'is_some': ('Option', '1', '0'), 'is_none': ('Option', '0', '1'),
    'is_ok': ('Result', '0', '1'), 'is_err': ('Result', '1', '0'),
}


def _variant_count(fn, place):
    from .arms import place_type
    ty = place_type(fn, place)
    if not ty:
        return None, None
    base = ty.replace('&mut ', '').replace('&', '')
    head = base.split('<', 1)[0]
    adt = fn.facts.adts.get(head)
    if adt is None:
        # generic instantiations are stored under their generic path
        for k in fn.facts.adts:
            if k.split('<', 1)[0] == head:
                adt = fn.facts.adts[k]
                break
    if head in ('core::option::Option', 'core::result::Result', 'core::ops::ControlFlow'):
        return _short_ty(ty), 2
    if adt is not None and adt.get('variants'):
        return _short_ty(ty), len(adt['variants'])
    return _short_ty(ty), None


def condition_sig(fn, s):
    """(what a switch tests, function mapping the switch's raw outcome labels to canonical ones).
    Name-free: discr(<enum>:<of what>) / <cmp-op>(<leaves>;<leaves>) / <callee>(<args>).  Canonical outcomes never use the
    `otherwise` label when the domain is known (bool, enum discriminant): `if let` vs `match`, which arm is written last,
    `is_none()` vs a `match` on the Option do not change them."""
    t = fn.term(s)
    d = t['d']
    listed = [str(v) for v, _ in t['v']]

    def expand(domain):
        rest = [x for x in domain if x not in listed]
        return lambda lab: ([lab] if lab != '_' else rest)
    ident = lambda lab: [lab]
    if d[0] == 'k':
        return 'const', ident
    pl = d[1]
    is_bool = len(pl) == 1 and pl[0] < len(fn.locals) and fn.ty(pl[0]) == 'bool'
    boolmap = expand(['0', '1']) if is_bool else ident
    if len(pl) == 1:
        sd = fn.single_def(pl[0])
        if sd is not None:
            if sd[1] == 'term':
                f = sd[2]['f']
                nm = f.get('name') or 'fnptr'
                if nm in PRED_CALLS and sd[2]['a']:
                    tyname, t_lab, f_lab = PRED_CALLS[nm]
                    raw = expand(['0', '1'])
                    return ('discr(%s:%s)' % (tyname, _fmt(leaves(fn, sd[2]['a'][0], 14))),
                            lambda lab: [t_lab if x == '1' else f_lab for x in raw(lab)])
                args = ';'.join(_fmt(leaves(fn, a_, 14)) for a_ in sd[2]['a'])
                return '%s(%s)' % (nm, args), boolmap
            rv = sd[2]
            if rv[0] == 'discr':
                tyname, n = _variant_count(fn, rv[1])
                m = expand([str(i) for i in range(n)]) if n else ident
                return 'discr(%s:%s)' % (tyname or '?', _fmt(place_leaves(fn, rv[1], 14))), m
            if rv[0] == 'bin':
                return '%s(%s;%s)' % (rv[1], _fmt(leaves(fn, rv[2], 14)), _fmt(leaves(fn, rv[3], 14))), boolmap
            if rv[0] == 'un':
                return '%s(%s)' % (rv[1], _fmt(leaves(fn, rv[2], 14))), boolmap
    return 'val(%s)' % _fmt(leaves(fn, d, 14)), boolmap


def flow_fingerprint(fn, summ):
    """what every call argument / stored value / returned value / re-assigned variable is computed from"""
    rows = defaultdict(int)
    g = fn.facts
    for b in sorted(fn.reach):
        stmts, t = fn.blocks[b]
        for st in stmts:
            if st[0] != 'a':
                continue
            pl, rv = st[1], st[2]
            if rv[0] == 'agg' and rv[1][0] == 'adt' and len(rv[1]) > 4 and len(rv[1][4] or []) >= 2 and len(rv[1][4]) == len(rv[2]):
                # a struct / variant construction: which value goes into which field (the leaf *set* of the whole aggregate cannot
                # tell `Range { begin, end }` from `Range { begin: end, end: begin }`)
                rows['new %s::%s{%s}' % (g.strs[rv[1][1]].split('::')[-1], rv[1][2],
                                         ' ; '.join('%s<-%s' % (fld, _fmt(leaves(fn, o_, 14))) for fld, o_ in zip(rv[1][4], rv[2])))] += 1
            tmp_op = None
            target = None
            if len(pl) > 1:
                base, names = summ.root_of(fn, pl)
                if base is not None and names:
                    target = ('self' if base == 1 and fn.impl_self_adt else 'arg%d' % base) + '.' + '.'.join(names)
                elif base is None and pl[0] > fn.argc and len(fn.defs.get(pl[0], [])) != 1:
                    target = 'var:%s.%s' % (_short_ty(fn.ty(pl[0])), '.'.join(_proj(pl)))
            elif pl[0] == 0:
                target = 'ret'
            elif pl[0] > fn.argc and len(fn.defs.get(pl[0], [])) != 1:
                target = 'var:%s' % _short_ty(fn.ty(pl[0]))
            if target is None:
                continue
            # evaluate the right-hand side as if it were a single-def temporary
            ls = _rv_leaves(fn, rv)
            rows['%s <- %s' % (target, _fmt(ls))] += 1
        if t['k'] == 'call':
            f = t['f']
            name = '<fnptr>' if 'ptr' in f else f.get('name')
            if name and name not in NOISE_CALLS:
                args = ' ; '.join(_fmt(leaves(fn, a_, 14)) for a_ in t['a'])
                rows['%s(%s)' % (name, args)] += 1
            d = t['d']
            tgt = None
            if len(d) == 1 and d[0] == 0:
                tgt = 'ret'
            elif len(d) == 1 and d[0] > fn.argc and len(fn.defs.get(d[0], [])) != 1:
                tgt = 'var:%s' % _short_ty(fn.ty(d[0]))
            elif len(d) > 1:
                base, names = summ.root_of(fn, d)
                if base is not None and names:
                    tgt = ('self' if base == 1 and fn.impl_self_adt else 'arg%d' % base) + '.' + '.'.join(names)
            if tgt is not None and name:
                rows['%s <- %s()' % (tgt, name)] += 1
    # a set, not a multiset (duplicating a `return None` or splitting `a || b` into two ifs changes nothing); unit and bool
    # temporaries are artefacts of `&&` / `||` / `if` lowering
    return sorted(k for k in rows if not k.startswith(('var:() <-', 'var:bool <- k')))


def _rv_leaves(fn, rv, depth=14):
    k = rv[0]
    if k == 'use':
        return leaves(fn, rv[1], depth)
    if k == 'cast':
        return leaves(fn, rv[2], depth) | {'as:' + _short_ty(fn.facts.strs[rv[4]])}
    if k in ('ref', 'ptr', 'cfd'):
        return place_leaves(fn, rv[1], depth)
    if k == 'bin':
        return leaves(fn, rv[2], depth) | leaves(fn, rv[3], depth) | {str(rv[1])}
    if k == 'un':
        return leaves(fn, rv[2], depth) | {str(rv[1])}
    if k == 'discr':
        return {'discr'} | place_leaves(fn, rv[1], depth)
    if k == 'agg':
        sub = set()
        kd = rv[1]
        if kd[0] == 'adt':
            sub.add('%s::%s' % (fn.facts.strs[kd[1]].split('::')[-1], kd[2]))
        else:
            sub.add(str(kd[0]))
        for x in rv[2]:
            sub |= leaves(fn, x, depth)
        return sub
    if k == 'rep':
        return leaves(fn, rv[1], depth) | {'rep'}
    return {str(k)}


_CONST_LEAF = re.compile(r'^(k.*|[A-Z][A-Z0-9_]*|[A-Za-z0-9_]+::[A-Za-z0-9_]+|as:\w+)$')


def _result_locals(fn):
    """the return place and the multi-definition locals that are moved into it (`let r = if c { 4 } else { 8 }; r`)"""
    res = {0}
    for b in fn.reach:
        for st in fn.blocks[b][0]:
            if st[0] == 'a' and st[1] == [0] and st[2][0] == 'use' and st[2][1][0] in ('c', 'm') and len(st[2][1][1]) == 1:
                l = st[2][1][1][0]
                if l > fn.argc and len(fn.defs.get(l, [])) != 1:
                    res.add(l)
    return res


def events(fn, summ):
    """(block, label) for every call / *self store / explicit error value / constant result of the body"""
    g = fn.facts
    out = []
    results = _result_locals(fn)
    for b in sorted(fn.reach):
        stmts, t = fn.blocks[b]
        for st in stmts:
            if st[0] != 'a':
                continue
            pl, rv = st[1], st[2]
            if len(pl) == 1 and pl[0] in results:
                # which value the function answers under which condition (`Format::word_size`, `is_cie`: `id == 0xffff_ffff` for
                # Dwarf32, `allow_section_offset`, `is_valid_encoding`): the set of returned values alone does not say which arm gives which
                ls = _rv_leaves(fn, rv)
                if ls and not all(x.startswith(('var:', 'tmp:')) for x in ls):
                    out.append((b, 'r:' + _fmt(ls)))
            if len(pl) > 1:
                base, names = summ.root_of(fn, pl)
                if base == 1 and names:
                    out.append((b, 'w:' + '.'.join(names)))
            if rv[0] == 'agg' and rv[1][0] == 'adt':
                adt = g.strs[rv[1][1]]
                if adt.endswith('::Error') or adt.endswith('ConvertError'):
                    out.append((b, 'e:' + rv[1][2]))
        if t['k'] == 'call':
            f = t['f']
            name = '<fnptr>' if 'ptr' in f else f.get('name')
            if name and name not in NOISE_CALLS:
                # the call together with what it is applied to: `empty(self.remaining_input)` under the entry-error condition and
                # under the header-error condition are different rows (as sets of bare names they would collapse into one)
                out.append((b, 'c:%s(%s)' % (name, ' ; '.join(_fmt(leaves(fn, a_, 14)) for a_ in t['a']))))
            d = t['d']
            if len(d) > 1:
                base, names = summ.root_of(fn, d)
                if base == 1 and names:
                    out.append((b, 'w:' + '.'.join(names)))
        elif t['k'] == 'ret':
            pass
    return out


def ctl_fingerprint(fn, summ):
    closure, direct = control_deps(fn)
    sigs = {}
    rows = set()
    for b, lab in events(fn, summ):
        conds = {}
        for s, labs in closure.get(b, {}).items():
            if s not in sigs:
                sigs[s] = condition_sig(fn, s)
            sig, canon = sigs[s]
            out = conds.setdefault(sig, set())
            for l in labs:
                out.update(canon(l))
        rows.add('%s @ %s' % (lab, ' & '.join('%s=%s' % (k, '|'.join(sorted(v))) for k, v in sorted(conds.items())) or '-'))
    return sorted(rows)


# ---- loop-carried locals --------------------------------------------------------------------------

def _uses_defs(fn, b):
    """ordered (uses, kill) per program point of block b; a use of `x.f` or `&x` is a use of x; only whole-local stores kill"""
    seq = []
    stmts, t = fn.blocks[b]

    def place_uses(pl, as_dest=False):
        u = set()
        if not as_dest or len(pl) > 1:
            u.add(pl[0])
        for p in pl[1:]:
            if isinstance(p, list) and p[0] == 'i':
                u.add(p[1])
        return u
    for st in stmts:
        if st[0] != 'a':
            continue
        pl, rv = st[1], st[2]
        uses = set()
        for o in rv_operands(rv):
            if o[0] in ('c', 'm'):
                uses |= place_uses(o[1])
        if rv[0] in ('ref', 'ptr', 'cfd', 'discr', 'len'):
            if isinstance(rv[1], list):
                uses |= place_uses(rv[1])
        uses |= place_uses(pl, as_dest=True)
        seq.append((uses, pl[0] if len(pl) == 1 else None))
    if t['k'] == 'call':
        uses = set()
        for a in t['a']:
            if a[0] in ('c', 'm'):
                uses |= place_uses(a[1])
        d = t['d']
        uses |= place_uses(d, as_dest=True)
        seq.append((uses, d[0] if len(d) == 1 else None))
    elif t['k'] in ('switch',):
        d = t['d']
        if d[0] in ('c', 'm'):
            seq.append((place_uses(d[1]), None))
    elif t['k'] == 'ret':
        seq.append(({0}, None))
    elif t['k'] == 'drop':
        pass        # a drop is not a read of the value for our purpose
    return seq


def carried_locals(fn):
    loops = natural_loops(fn)
    if not loops:
        return []
    # backward liveness
    gen, kill = {}, {}
    for b in fn.reach:
        g_, k_ = set(), set()
        for uses, d in _uses_defs(fn, b):
            g_ |= (uses - k_)
            if d is not None:
                k_.add(d)
        gen[b], kill[b] = g_, k_
    live_in = {b: set() for b in fn.reach}
    changed = True
    while changed:
        changed = False
        for b in sorted(fn.reach, reverse=True):
            out = set()
            for s in fn.succ[b]:
                out |= live_in.get(s, set())
            new = gen[b] | (out - kill[b])
            if new != live_in[b]:
                live_in[b] = new
                changed = True
    # reference locals that alias a named local (`_5 = &mut x`) count as that local when they are written through:
    # keep it simple: only named, non-reference locals are reported
    depth = {}
    for h, body in loops.items():
        depth[h] = sum(1 for h2, body2 in loops.items() if h in body2)
    res = {}
    for h, body in loops.items():
        assigned = set()
        for b in body:
            for st in fn.stmts(b):
                if st[0] == 'a':
                    assigned.add(st[1][0])
            t = fn.term(b)
            if t['k'] == 'call':
                assigned.add(t['d'][0])
                # `f(&mut x)`: x may be assigned
            for st in fn.stmts(b):
                if st[0] == 'a' and st[2][0] in ('ref', 'ptr') and len(st[2]) > 2 and st[2][2] != 'shared' and len(st[2][1]) >= 1:
                    assigned.add(st[2][1][0])
        for l in live_in[h] & assigned:
            if l >= len(fn.locals):
                continue
            nm = fn.lname(l)
            if nm is None or l <= fn.argc:
                continue
            d = depth[h]
            if l not in res or d < res[l]:
                res[l] = d
    # reported by type, not by name: renaming a variable changes nothing
    return sorted('%s@L%d' % (_short_ty(fn.ty(l)), d) for l, d in res.items())


# ---- dependence order ---------------------------------------------------------------------------------
_ROOT = re.compile(r'^(self|arg\d+)(\.[A-Za-z_0-9]+)?')


def _roots(ls):
    out = set()
    for leaf in ls:
        m = _ROOT.match(leaf)
        if m:
            out.add(m.group(0))
    return out


def _overlap(r1, r2):
    for a in r1:
        for b in r2:
            if a == b or a.startswith(b + '.') or b.startswith(a + '.'):
                return True
    return False


_PASS_THROUGH = {'deref', 'deref_mut', 'as_ref', 'as_mut', 'borrow', 'borrow_mut', 'index', 'index_mut', 'as_mut_slice', 'as_slice'}


def _op_roots(fn, o, depth=6):
    """objects an operand designates, also through `Deref`-like calls: `w.write_u8(..)` on a `DebugInfo<W>` is a call on
    `deref_mut(w)`, and it is `w` that the call modifies"""
    if o[0] == 'k':
        return set()
    out = _roots(leaves(fn, o, 14))
    base = o[1][0]
    if depth > 0 and base > fn.argc:
        sd = fn.single_def(base)
        if sd is not None:
            if sd[1] == 'term':
                if sd[2]['f'].get('name') in _PASS_THROUGH and sd[2]['a']:
                    out |= _op_roots(fn, sd[2]['a'][0], depth - 1)
            else:
                rv = sd[2]
                if rv[0] == 'use' and rv[1][0] != 'k':
                    out |= _op_roots(fn, rv[1], depth - 1)
                elif rv[0] in ('ref', 'ptr') and rv[1][0] > fn.argc:
                    out |= _op_roots(fn, ['c', [rv[1][0]]], depth - 1)
    return out


def _is_mut_ref(fn, o):
    if o[0] not in ('c', 'm') or len(o[1]) != 1:
        return False
    ty = fn.ty(o[1][0])
    return bool(re.match(r"^&('\w+ )?mut ", ty))


def order_fingerprint(fn, summ):
    """Which call / `*self` store comes *after* which, restricted to pairs with a data dependence through a common object (a
    parameter or a field of `self` that one of the two may modify: it is passed as `&mut`, or stored to) and to the nearest such
    predecessor on the dominator chain.  Sets of calls, their guards and their operands do not say that the string table is
    serialised *after* the units that may still add strings to it, that the length is patched after the body, that a cache is
    cleared before it is filled.  Two statements without such a dependence (two getters, two stores to different fields) have no
    order row, so reordering independent statements changes nothing."""
    evs = defaultdict(list)     # block -> [(pos, label, reads, writes)]
    for b in sorted(fn.reach):
        stmts, t = fn.blocks[b]
        for i, st in enumerate(stmts):
            if st[0] != 'a':
                continue
            pl, rv = st[1], st[2]
            if len(pl) > 1:
                base, names = summ.root_of(fn, pl)
                if base == 1 and names:
                    evs[b].append((i, 'w:' + names[0], _roots(_rv_leaves(fn, rv)), {'self.' + names[0]}))
        if t['k'] == 'call':
            f = t['f']
            name = '<fnptr>' if 'ptr' in f else f.get('name')
            if name and name not in NOISE_CALLS:
                ls = [leaves(fn, a_, 14) for a_ in t['a']]
                rd, wr = set(), set()
                for a_, l_ in zip(t['a'], ls):
                    (wr if _is_mut_ref(fn, a_) else rd).update(_op_roots(fn, a_))
                d = t['d']
                if len(d) > 1:
                    base, names = summ.root_of(fn, d)
                    if base == 1 and names:
                        wr.add('self.' + names[0])
                if rd or wr:
                    evs[b].append((len(stmts), 'c:%s(%s)' % (name, ' ; '.join(_fmt(l_) for l_ in ls)), rd, wr))
    if not evs:
        return []
    dom = fn.dom
    idom = {}
    for b in fn.reach:
        sd = [d_ for d_ in dom.get(b, ()) if d_ != b]
        idom[b] = max(sd, key=lambda d_: len(dom.get(d_, ()))) if sd else None

    def dep(e1, e2):
        return _overlap(e1[3], e2[2] | e2[3]) or _overlap(e1[2], e2[3])
    rows = set()
    for b, lst in evs.items():
        for k, ev in enumerate(lst):
            found = None
            for j in range(k - 1, -1, -1):
                if dep(lst[j], ev):
                    found = lst[j][1]
                    break
            cur = idom.get(b)
            while found is None and cur is not None:
                for ev2 in reversed(evs.get(cur, [])):
                    if dep(ev2, ev):
                        found = ev2[1]
                        break
                cur = idom.get(cur)
            if found is not None and found != ev[1]:
                rows.add('%s < %s' % (found, ev[1]))
    return sorted(rows)
