"""U rules: census of unsafe code and store-discipline audit of the two unsafe abstractions
(read::endian_reader::SubRange, read::util::ArrayVec).  Structural: which functions may write the
fields the unsafe blocks rely on, and which guard dominates each write / raw access."""
from . import structs as ST
from .ranges import Eval, CMP_OPS

SUBRANGE = 'read::endian_reader::SubRange'
ARRAYVEC = 'read::util::ArrayVec'

# functions allowed to contain user-written unsafe blocks, with the reviewed reason
UNSAFE_FNS = {
    'read::endian_reader::SubRange::<T>::bytes': 'from_raw_parts(self.ptr, self.len): invariant ptr..ptr+len inside `bytes` (U1)',
    'read::endian_reader::SubRange::<T>::skip': 'ptr.add(len) behind assert!(len <= self.len) (U1)',
    'read::endian_reader::SubRange::<T>::read_slice': 'from_raw_parts(self.ptr, len) behind `self.len() < len -> None` (U1)',
    'read::util::<impl read::util::sealed::Sealed for [T; N]>::new_storage': 'MaybeUninit array: uninit().assume_init() of an array of MaybeUninit',
    'read::util::<impl read::util::sealed::Sealed for alloc::boxed::Box<[T; N]>>::new_storage': 'Box of MaybeUninit array',
    'read::util::<impl read::util::sealed::Sealed for alloc::vec::Vec<T>>::grow': 'set_len(capacity) on a Vec<MaybeUninit<T>>',
    'read::util::ArrayVec::<A>::clear': 'drop_in_place of the initialised prefix after len = 0 (U2)',
    'read::util::ArrayVec::<A>::try_insert': 'ptr::copy inside storage after the capacity check and assert!(index <= len) (U2)',
    'read::util::ArrayVec::<A>::pop': 'read of element len-1 after the len == 0 check (U2)',
    'read::util::ArrayVec::<alloc::vec::Vec<T>>::into_vec': 'Vec::from_raw_parts of the leaked storage with the saved len (U2)',
    '<read::util::ArrayVec<A> as core::ops::Deref>::deref': 'slice of the initialised prefix (U2)',
    '<read::util::ArrayVec<A> as core::ops::DerefMut>::deref_mut': 'slice of the initialised prefix (U2)',
}
UNSAFE_IMPLS = {
    ('read::endian_reader::SubRange<T>', 'core::marker::Send'),
    ('read::endian_reader::SubRange<T>', 'core::marker::Sync'),
    ('[T; N]', 'read::util::sealed::Sealed'),
    ('alloc::boxed::Box<[T; N]>', 'read::util::sealed::Sealed'),
    ('alloc::vec::Vec<T>', 'read::util::sealed::Sealed'),
}


def run_U(rep, g):
    rep.rule('U0', 'census: user-written unsafe blocks and unsafe impls occur only in the reviewed functions/types')
    rep.rule('U1', 'SubRange store discipline: ptr/len/bytes are private and written only in new/skip/truncate, each write '
             'dominated by the passing edge of assert!(len <= self.len); raw-parts lengths are self.len or guarded')
    rep.rule('U2', 'ArrayVec store discipline: len is written only in new/clear/try_push/try_insert/pop/into_vec and each '
             'increment is preceded by the capacity check')
    # ---- U0
    have = {f.path: f for f in g.fns.values() if f.raw.get('unsafe_blocks')}
    for p, f in sorted(have.items()):
        if p in UNSAFE_FNS:
            rep.ok('U0', 'unsafe-block|' + p, UNSAFE_FNS[p], f.loc(), why='reviewed unsafe block')
        else:
            rep.bad('U0', 'unsafe-block|' + p, 'function contains a user-written unsafe block that is not in the audited set', f.loc())
    rep.floor('U0', 'functions with unsafe blocks', len(have), 10)
    impls = {(i['self'], i['trait']) for i in g.impls if i['unsafe'] and i['trait'] != 'core::clone::TrivialClone'}
    for it in sorted(impls):
        if it in UNSAFE_IMPLS:
            rep.ok('U0', 'unsafe-impl|%s|%s' % it, 'audited unsafe impl', why='reviewed')
        else:
            rep.bad('U0', 'unsafe-impl|%s|%s' % it, 'unsafe impl outside the audited set')
    for f in g.fns.values():
        if f.unsafe_fn:
            rep.bad('U0', 'unsafe-fn|' + f.path, 'unsafe fn declared in the crate (none existed when audited)', f.loc())
    # bounds of the Send/Sync impls
    for i in g.impls:
        if i['self'] == 'read::endian_reader::SubRange<T>' and i['trait'] in ('core::marker::Send', 'core::marker::Sync'):
            want = i['trait']
            ok = any(('<T as %s>' % want) in p for p in i['preds'])
            rep.check('U1', 'impl-bound|%s' % want, ok, 'unsafe impl %s for SubRange<T> requires T: %s' % (want, want.split('::')[-1]),
                      '%s:%d' % (i['file'].replace('/repo/', ''), i['line']), why='predicate present')
    # ---- U1
    adt = g.adt(SUBRANGE)
    for f in adt['variants'][0]['fields']:
        rep.check('U1', 'private|' + f['name'], f['vis'] != 'pub' and f['vis'] != 'crate',
                  'SubRange.%s visibility is %s' % (f['name'], f['vis']), why='module-private field')
    allowed = {'read::endian_reader::SubRange::<T>::new', 'read::endian_reader::SubRange::<T>::skip',
               'read::endian_reader::SubRange::<T>::truncate'}
    nst = 0
    for field in ('ptr', 'len', 'bytes'):
        for (fn, bb, kind, st) in ST.field_stores(g, SUBRANGE, field):
            if fn.impl_trait in ('core::clone::Clone',) and fn.impl_self_adt == SUBRANGE:
                continue
            nst += 1
            key = 'store|%s|%s|%s' % (field, fn.path, kind)
            if fn.path not in allowed:
                rep.bad('U1', key, 'SubRange.%s is written outside new/skip/truncate' % field, fn.loc())
                continue
            if fn.path.endswith('::new'):
                rep.ok('U1', key, 'constructor', fn.loc(), why='initial store from bytes.as_ptr()/len()')
                continue
            guards = ST.panic_guard_edges(fn, ('assert',))
            ev = Eval(fn)
            good = False
            for (sw, okb, t) in guards:
                facts = ev._bool_facts(t['d'], True, 6) + ev._bool_facts(t['d'], False, 6)
                txt = ' '.join('%s %s' % (ev.canon(a), ev.canon(b)) for (_, a, b) in facts)
                if 'len' in txt and 'self.len' in txt and ST.dominated_by_edge(fn, sw, okb, bb):
                    good = True
            rep.check('U1', key, good, 'store to SubRange.%s must be dominated by the passing edge of assert!(len <= self.len)' % field,
                      fn.loc(), why='dominated by the assert guard edge')
    rep.floor('U1', 'stores to SubRange fields', nst, 5)
    # raw parts
    nraw = 0
    for p in ('read::endian_reader::SubRange::<T>::bytes', 'read::endian_reader::SubRange::<T>::read_slice'):
        fn = g.fn(p)
        ev = Eval(fn)
        for (bi, t) in ST.calls_named(fn, 'from_raw_parts'):
            nraw += 1
            ln = t['a'][1]
            txt = ev.canon(ln)
            key = 'raw-parts|%s' % p
            if txt in ('self.len',):
                rep.ok('U1', key, 'from_raw_parts(self.ptr, self.len)', fn.loc(t['line']), why='length is the tracked field')
                continue
            rel = ev.known_rel(ln, ['c', [1, '*', ['f', 2, 'len', _adt_ix(g, SUBRANGE)]]], bi)
            facts = [(o, ev.canon(a), ev.canon(b)) for (o, a, b, gb) in ev.cond_facts(bi)]
            ok = any(('len' in a and 'len' in b and o in ('Ge', 'Le', 'Lt', 'Gt')) for (o, a, b) in facts)
            rep.check('U1', key, ok, 'from_raw_parts length `%s` must be self.len or dominated by the `self.len() < len` guard (facts: %s)' % (txt, facts),
                      fn.loc(t['line']), why='dominated by length guard')
    rep.floor('U1', 'from_raw_parts calls in SubRange', nraw, 2)
    # ---- U2
    allowed2 = {'read::util::ArrayVec::<A>::new', 'read::util::ArrayVec::<A>::clear', 'read::util::ArrayVec::<A>::try_push',
                'read::util::ArrayVec::<A>::try_insert', 'read::util::ArrayVec::<A>::pop',
                'read::util::ArrayVec::<alloc::vec::Vec<T>>::into_vec'}
    n2 = 0
    for (fn, bb, kind, st) in ST.field_stores(g, ARRAYVEC, 'len'):
        n2 += 1
        key = 'store|len|%s|%s' % (fn.path, kind)
        if fn.path not in allowed2:
            rep.bad('U2', key, 'ArrayVec.len is written outside the audited methods', fn.loc())
            continue
        if fn.name in ('try_push', 'try_insert'):
            ev = Eval(fn)
            # the capacity comparison self.len >= storage.len() must precede the increment on every path
            cmp_blocks = []
            for bi in fn.reach:
                for s2 in fn.stmts(bi):
                    if s2[0] == 'a' and s2[2][0] == 'bin' and s2[2][1] in CMP_OPS:
                        a, b = ev.canon(s2[2][2]), ev.canon(s2[2][3])
                        if 'self.len' in (a, b) and ('len(' in a or 'len(' in b):
                            cmp_blocks.append(bi)
            ok = bool(cmp_blocks) and ST.must_precede(fn, cmp_blocks, [bb])
            rep.check('U2', key, ok, 'len += 1 must be preceded on every path by the capacity check `self.len >= storage.len()`',
                      fn.loc(), why='capacity check precedes the store on all paths')
        elif fn.name == 'pop':
            ev = Eval(fn)
            ok = any(o in ('Ne', 'Gt') and 'self.len' in (ev.canon(a), ev.canon(b)) for (o, a, b, gb) in ev.cond_facts(bb))
            rep.check('U2', key, ok, 'len -= 1 must be dominated by the len != 0 edge', fn.loc(), why='dominated by len != 0')
        else:
            rep.ok('U2', key, 'store of 0 / constructor / mem::replace', fn.loc(), why='audited method')
    rep.floor('U2', 'stores to ArrayVec.len', n2, 5)
    f = [x for x in g.adt(ARRAYVEC)['variants'][0]['fields']]
    for x in f:
        rep.check('U2', 'private|' + x['name'], x['vis'] not in ('pub', 'crate'), 'ArrayVec.%s visibility %s' % (x['name'], x['vis']), why='private field')


def _adt_ix(g, path):
    try:
        return g.strs.index(path)
    except ValueError:
        return None
