"""Per-variant arm summaries of `match` over an enum (or over a newtype constant) and their
comparison with frozen spec tables.

arm summary = what the code dominated by one match arm does, at the level of
  * which fields of `self` (or of a named parameter) it stores, transitively through in-crate
    methods called on the same receiver  ("writes"),
  * which functions it calls                                     ("calls"),
  * which error variants it can construct                         ("errs").
A refactor that moves arm code into a helper keeps the summary; a semantic edit (wrong field,
dropped reset, missing factor, missing error exit) changes it."""
import re
from collections import defaultdict

from .facts import MissingAnchor, rv_operands

NOISE_CALLS = {
    'branch', 'from_residual', 'from', 'into', 'clone', 'deref', 'deref_mut', 'borrow', 'as_ref', 'eq', 'ne',
    'lt', 'le', 'gt', 'ge', 'cmp', 'partial_cmp', 'drop', 'default', 'fmt', 'into_iter', 'next', 'as_mut',
    'map_err', 'ok_or', 'unwrap_or', 'is_some', 'is_none', 'is_ok', 'is_err', 'not',
}


def find_enum_switch(fn, enum_path, which=0):
    """The `which`-th (in block order) switch whose discriminant is `discriminant(x)` with x of
    the given enum type.  Returns (block, term, local x)."""
    g = fn.facts
    n = 0
    for bi in sorted(fn.reach):
        t = fn.term(bi)
        if t['k'] != 'switch':
            continue
        d = t['d']
        if d[0] not in ('c', 'm') or len(d[1]) != 1:
            continue
        sd = fn.single_def(d[1][0])
        if sd is None or sd[1] == 'term' or sd[2][0] != 'discr':
            continue
        pl = sd[2][1]
        ty = place_type(fn, pl)
        if ty is None:
            continue
        base = ty.replace('&mut ', '').replace('&', '')
        if base == enum_path or base.startswith(enum_path + '<'):
            if n == which:
                return bi, t, pl
            n += 1
    raise MissingAnchor('no match over %s found in %s' % (enum_path, fn.path))


def place_type(fn, pl):
    g = fn.facts
    if len(pl) == 1:
        return fn.ty(pl[0])
    if pl[1:] == ['*']:
        t = fn.ty(pl[0])
        return t.replace('&mut ', '', 1).replace('&', '', 1)
    last = pl[-1]
    if isinstance(last, list) and last[0] == 'f' and last[3] is not None:
        adt = g.adts.get(g.strs[last[3]])
        if adt is not None:
            vidx = 0
            if len(pl) >= 3 and isinstance(pl[-2], list) and pl[-2][0] == 'd':
                vidx = pl[-2][2]
            try:
                return adt['variants'][vidx]['fields'][last[1]]['ty']
            except (IndexError, KeyError):
                return None
    return None


def variant_names(g, enum_path):
    adt = g.adt(enum_path)
    return {v['discr'] if v['discr'] is not None else i: v['name'] for i, v in enumerate(adt['variants'])}


_REGION_CACHE = {}


def _dom_region(fn, head):
    out = set()
    st = [head]
    while st:
        b = st.pop()
        if b in out or not fn.dominates(head, b):
            continue
        out.add(b)
        st.extend(fn.succ[b])
    return out


def _scrutinee_base(fn, sw_block):
    """base local of the place whose discriminant / value the switch tests"""
    t = fn.term(sw_block)
    d = t['d']
    if d[0] not in ('c', 'm'):
        return None
    if len(d[1]) == 1:
        sd = fn.single_def(d[1][0])
        if sd is not None and sd[1] != 'term' and sd[2][0] == 'discr':
            return sd[2][1][0]
        if sd is not None and sd[1] != 'term' and sd[2][0] == 'use' and sd[2][1][0] in ('c', 'm'):
            return sd[2][1][1][0]
    return d[1][0]


def _binding_only(fn, b, bound):
    """block consists only of pattern bindings: copies / borrows / discriminant reads of the scrutinee
    (or of values already bound from it).  `bound` is updated with the locals it binds."""
    stmts, term = fn.blocks[b]
    if term['k'] not in ('goto', 'switch'):
        return False
    for st in stmts:
        if st[0] != 'a':
            return False
        rv = st[2]
        src = None
        if rv[0] == 'use' and rv[1][0] in ('c', 'm'):
            src = rv[1][1][0]
        elif rv[0] in ('ref', 'cfd', 'discr'):
            src = rv[1][0]
        if src is None or src not in bound:
            return False
        bound.add(st[1][0])
    return True


def arm_regions(fn, sw_block, n_values=None):
    """target block -> set of blocks belonging to that arm: the blocks dominated by the arm's target,
    plus - for or-patterns with bindings, which lower to per-variant binding blocks that jump into a
    shared body - the blocks dominated by that shared body.  A shared body is a block all of whose
    predecessors are binding-only blocks of this match (the join after the match has predecessors
    that do real work, or is reached from every arm, and is never taken for one)."""
    key = (id(fn), sw_block)
    if key in _REGION_CACHE:
        return _REGION_CACHE[key]
    targets = list(dict.fromkeys(fn.succ[sw_block]))
    scrut = _scrutinee_base(fn, sw_block)
    # binding-only closure of each target
    closure = {}
    for t in targets:
        bound = {scrut} if scrut is not None else set()
        seen = set()
        st = [t]
        while st:
            b = st.pop()
            if b in seen or not fn.dominates(t, b):
                continue
            if not _binding_only(fn, b, bound):
                continue
            seen.add(b)
            st.extend(fn.succ[b])
        closure[t] = seen
    owner = {}
    for t, bs in closure.items():
        for b in bs:
            owner[b] = t
    shared = {}
    cand = set()
    for t, bs in closure.items():
        for b in bs:
            for s_ in fn.succ[b]:
                if s_ not in owner and len(fn.pred[s_]) > 1:
                    cand.add(s_)
    for e in cand:
        origins = set()
        ok = True
        for p_ in fn.pred[e]:
            if p_ in owner:
                origins.add(owner[p_])
            else:
                ok = False
                break
        if ok and 2 <= len(origins) < len(targets):
            shared[e] = origins
    out = {}
    for t in targets:
        region = _dom_region(fn, t)
        for e, origins in shared.items():
            if t in origins:
                region |= _dom_region(fn, e)
        out[t] = region
    _REGION_CACHE[key] = out
    return out


def arm_blocks(fn, sw_block, target, n_values=None):
    return arm_regions(fn, sw_block).get(target, set())


class ArmSummarizer:
    def __init__(self, g):
        self.g = g
        self._writes = {}
        self._counts = {}

    def body_summary(self, path, depth=3):
        """(writes to *arg1, calls, errs) of a whole function body, transitively through private callees"""
        if path in self._writes:
            return self._writes[path]
        self._writes[path] = (set(), set(), set())
        fn = self.g.fns.get(path)
        if fn is None:
            return self._writes[path]
        r = self.summarize_blocks(fn, fn.reach, receiver=1, depth=depth)
        self._writes[path] = r
        return r

    def root_of(self, fn, pl, depth=6):
        """follow `&mut (*self).f` style reborrows back to (arg index, field path)"""
        base = pl[0]
        proj = [p for p in pl[1:]]
        for _ in range(depth):
            if 1 <= base <= fn.argc:
                break
            sd = fn.single_def(base)
            if sd is None or sd[1] == 'term':
                return None, None
            rv = sd[2]
            if rv[0] in ('ref', 'ptr', 'cfd'):
                inner = rv[1]
                rest = proj
                if rest and rest[0] == '*':
                    rest = rest[1:]
                base, proj = inner[0], list(inner[1:]) + rest
            elif rv[0] == 'use' and rv[1][0] in ('c', 'm'):
                inner = rv[1][1]
                base, proj = inner[0], list(inner[1:]) + proj
            else:
                return None, None
        if not (1 <= base <= fn.argc):
            return None, None
        names = []
        for p in proj:
            if isinstance(p, list) and p[0] == 'f':
                names.append(str(p[2]) if p[2] is not None else str(p[1]))
        return base, names

    def summarize_blocks(self, fn, blocks, receiver=1, depth=4, count=None):
        """count: optional collections.Counter that receives one increment per (non-noise) call site name
        (private callees are inlined and contribute their own call sites)"""
        g = self.g
        writes = set()
        calls = set()
        errs = set()
        for b in blocks:
            stmts, t = fn.blocks[b]
            for st in stmts:
                if st[0] != 'a':
                    continue
                pl, rv = st[1], st[2]
                if len(pl) > 1:
                    base, names = self.root_of(fn, pl)
                    if base == receiver and names:
                        val = ''
                        if rv[0] == 'use' and rv[1][0] == 'k':
                            v = rv[1][2].get('v') if isinstance(rv[1][2], dict) else None
                            if v is not None and not isinstance(v, str):
                                val = '=%s' % v
                        writes.add('.'.join(names) + val)
                if rv[0] == 'agg' and rv[1][0] == 'adt':
                    adt = g.strs[rv[1][1]]
                    if adt.endswith('::Error') or adt.endswith('ConvertError'):
                        errs.add(rv[1][2])
            if t['k'] == 'call':
                f = t['f']
                name = f.get('name')
                tgts = [] if 'ptr' in f else g.callee_targets(f)
                # private in-crate callees are inlined into the summary; methods of (public) traits never are:
                # `add_sized` vs `wrapping_add_sized` is exactly the kind of difference a summary must keep
                private = [x for x in tgts if (g.fns[x].vis != 'pub' or g.fns[x].kind == 'Closure') and not f.get('trait')]
                inline = bool(tgts) and len(private) == len(tgts) and depth > 0
                if 'ptr' in f:
                    calls.add('<fnptr>')
                elif name and name not in NOISE_CALLS and not inline:
                    calls.add(name)
                    if count is not None:
                        count[name] += 1
                # destination write
                d = t['d']
                if len(d) > 1:
                    base, names = self.root_of(fn, d)
                    if base == receiver and names:
                        writes.add('.'.join(names))
                # receiver-relative position of the first argument
                rbase, rnames = None, None
                if t['a'] and t['a'][0][0] in ('c', 'm'):
                    rbase, rnames = self.root_of(fn, t['a'][0][1])
                if rbase == receiver and rnames is not None and name and name.endswith('_assign'):
                    writes.add('.'.join(rnames))
                if depth > 0:
                    for tgt in tgts:
                        cf = g.fns[tgt]
                        is_priv = tgt in private
                        on_recv = (rbase == receiver and cf.argc >= 1 and cf.ty(1).startswith('&mut'))
                        if not (is_priv or on_recv):
                            continue
                        w2, c2, e2 = self.body_summary(tgt, depth - 1)
                        if count is not None and is_priv:
                            sub = self._counts.get(tgt)
                            if sub is None:
                                from collections import Counter as _C
                                sub = _C()
                                cf2 = g.fns[tgt]
                                self._counts[tgt] = sub
                                self.summarize_blocks(cf2, cf2.reach, 1, depth - 1, sub)
                            count.update(sub)
                        if on_recv:
                            prefix = '.'.join(rnames)
                            for w in w2:
                                writes.add((prefix + '.' + w) if prefix else w)
                        if is_priv:
                            calls |= c2
                            errs |= e2
        return writes, calls, errs

    def param_field_reads(self, fn, blocks):
        """like field_reads, for every parameter: 'self.a.b' / 'argN.a'"""
        out = set()
        for i in range(1, fn.argc + 1):
            # positional, never the parameter's name: renaming a parameter changes nothing
            nm = 'self' if i == 1 and (fn.lname(1) in (None, 'self')) and fn.impl_self_adt else 'arg%d' % i
            for r in self.field_reads(fn, blocks, i):
                out.add('%s.%s' % (nm, r))
        return out

    def field_reads(self, fn, blocks, receiver=1):
        """field paths (<= 2 levels) of the receiver that the blocks read (copy, borrow, pass to a call)"""
        from .facts import rv_operands
        reads = set()

        def note(pl):
            if len(pl) < 2:
                return
            base, names = self.root_of(fn, pl)
            if base == receiver and names:
                reads.add('.'.join(names[:2]))
        for b in blocks:
            stmts, t = fn.blocks[b]
            for st in stmts:
                if st[0] != 'a':
                    continue
                rv = st[2]
                if rv[0] in ('ref', 'ptr', 'cfd', 'discr'):
                    note(rv[1])
                for o in rv_operands(rv):
                    if o[0] in ('c', 'm'):
                        note(o[1])
            if t['k'] == 'call':
                for a in t['a']:
                    if a[0] in ('c', 'm'):
                        note(a[1])
            if t['k'] == 'switch' and t['d'][0] in ('c', 'm'):
                note(t['d'][1])
        return reads

    def arms(self, fn, enum_path, which=0, receiver=1):
        """variant name -> summary dict; variants sharing an arm are reported with the same summary"""
        g = self.g
        sw, t, pl = find_enum_switch(fn, enum_path, which)
        names = variant_names(g, enum_path)
        by_tgt = defaultdict(list)
        for v, tgt in t['v']:
            by_tgt[tgt].append(names.get(v, 'discr%d' % v))
        listed = {v for v, _ in t['v']}
        rest = [names[v] for v in names if v not in listed]
        otherwise_reachable = fn.term(t['o'])['k'] != 'unreachable'
        if rest and otherwise_reachable:
            by_tgt[t['o']] += rest
        out = {}
        for tgt, vs in by_tgt.items():
            blocks = arm_blocks(fn, sw, tgt, len(names))
            w, c, e = self.summarize_blocks(fn, blocks, receiver)
            summ = {'writes': sorted(w), 'calls': sorted(c), 'errs': sorted(e)}
            for v in vs:
                out[v] = summ
        wildcard = sorted(rest) if (rest and otherwise_reachable) else []
        return out, wildcard


def compare_table(rep, rule, what, got, spec, loc, keys=('writes', 'calls', 'errs')):
    """spec: variant -> {writes, calls, errs} (frozen, reviewed). One obligation per variant."""
    for v in sorted(set(got) | set(spec)):
        key = '%s|%s' % (what, v)
        if v not in spec:
            rep.bad(rule, key, 'variant %s is handled by the code but has no row in the reviewed spec table' % v, loc)
            continue
        if v not in got:
            rep.bad(rule, key, 'variant %s has a spec row but no arm in the code' % v, loc)
            continue
        diffs = []
        for k in keys:
            if k not in spec[v]:
                continue
            a, b = list(got[v].get(k, [])), list(spec[v][k])
            if a != b:
                diffs.append('%s: code %s, spec %s' % (k, a, b))
        if diffs:
            rep.bad(rule, key, 'arm for %s deviates from the reviewed table: %s' % (v, '; '.join(diffs)), loc)
        else:
            rep.ok(rule, key, 'arm %s: %s' % (v, {k: spec[v][k] for k in keys if k in spec[v]}), loc, why='equals reviewed spec row')
