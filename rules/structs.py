"""Structural rule helpers: field-store discipline, dominance by guard edges, call ordering."""
from collections import defaultdict

from .facts import MissingAnchor


def field_stores(g, adt_path, field):
    """All sites that store into field `field` of ADT `adt_path`:
    yields (fn, bb, kind, detail) with kind in {'assign','aggregate','call-dest','mut-borrow'}"""
    S = g.strs
    out = []
    for fn in g.fns.values():
        for bi, (stmts, term) in enumerate(fn.blocks):
            if bi not in fn.reach:
                continue
            for st in stmts:
                if st[0] != 'a':
                    continue
                pl, rv = st[1], st[2]
                last = pl[-1] if len(pl) > 1 else None
                if isinstance(last, list) and last[0] == 'f' and last[3] is not None and S[last[3]] == adt_path and last[2] == field:
                    out.append((fn, bi, 'assign', st))
                if rv[0] == 'agg' and rv[1][0] == 'adt' and S[rv[1][1]] == adt_path and field in rv[1][4]:
                    out.append((fn, bi, 'aggregate', st))
                if rv[0] in ('ref', 'ptr') and (rv[0] == 'ptr' or rv[2] == 'mut'):
                    p2 = rv[1]
                    l2 = p2[-1] if len(p2) > 1 else None
                    if isinstance(l2, list) and l2[0] == 'f' and l2[3] is not None and S[l2[3]] == adt_path and l2[2] == field:
                        out.append((fn, bi, 'mut-borrow', st))
            if term['k'] == 'call':
                pl = term['d']
                last = pl[-1] if len(pl) > 1 else None
                if isinstance(last, list) and last[0] == 'f' and last[3] is not None and S[last[3]] == adt_path and last[2] == field:
                    out.append((fn, bi, 'call-dest', term))
    return out


def panic_guard_edges(fn, macro_names=('assert', 'debug_assert', 'assert_eq', 'assert_ne')):
    """(switch block, ok-successor) pairs of `assert!`-style guards: switches one of whose
    successors only leads to a diverging panic call expanded from one of the macros."""
    out = []
    for bi in sorted(fn.reach):
        t = fn.term(bi)
        if t['k'] != 'switch':
            continue
        succs = list(dict.fromkeys(fn.succ[bi]))
        bad = [s for s in succs if _leads_to_panic(fn, s, macro_names)]
        good = [s for s in succs if s not in bad and fn.term(s)['k'] != 'unreachable']
        if bad and len(good) == 1:
            out.append((bi, good[0], t))
    return out


def _leads_to_panic(fn, b, macro_names, depth=4):
    for _ in range(depth):
        t = fn.term(b)
        if t['k'] == 'call' and t.get('t') is None:
            mac = t.get('macro') or ''
            path = t['f'].get('path', '') if 'ptr' not in t['f'] else ''
            return path.startswith('core::panicking') and (mac in macro_names or not macro_names)
        if t['k'] == 'goto':
            b = t['t']
            continue
        if t['k'] == 'call':
            b = t['t']
            continue
        return False
    return False


def dominated_by_edge(fn, src, dst, b):
    """every path from entry to b takes the edge src->dst"""
    return fn.pred[dst] == [src] and fn.dominates(dst, b)


def calls_named(fn, name=None, path_prefix=None, trait=None):
    out = []
    for bi in sorted(fn.reach):
        t = fn.term(bi)
        if t['k'] != 'call' or 'ptr' in t['f']:
            continue
        f = t['f']
        if name is not None and f.get('name') != name:
            continue
        if path_prefix is not None and not (f.get('path', '').startswith(path_prefix) or (f.get('res') or '').startswith(path_prefix)):
            continue
        if trait is not None and f.get('trait') != trait:
            continue
        out.append((bi, t))
    return out


def first_calls_on_all_paths(fn, pred):
    """Blocks of calls satisfying `pred(term)`; returns True if every path from entry to a
    Return passes through one of them before any call satisfying `other`."""
    raise NotImplementedError


def must_precede(fn, first_blocks, later_blocks):
    """every path from entry to any block in later_blocks passes through a block in first_blocks"""
    first_blocks = set(first_blocks)
    seen = fn.reachable_from(0, removed=first_blocks) if 0 not in first_blocks else set()
    return not (seen & set(later_blocks))


def struct_fields(g, adt_path):
    a = g.adt(adt_path)
    return [f['name'] for f in a['variants'][0]['fields']]


def type_mentions(g, adt_path, needles, seen=None, depth=6):
    """does the ADT (transitively through in-crate ADT field types) mention any needle type text"""
    if seen is None:
        seen = set()
    if adt_path in seen or depth <= 0:
        return []
    seen.add(adt_path)
    a = g.adts.get(adt_path)
    if a is None:
        return []
    hits = []
    for v in a['variants']:
        for f in v['fields']:
            ty = f['ty']
            for n in needles:
                if n in ty:
                    hits.append('%s.%s: %s' % (adt_path, f['name'], ty))
            for other in g.adts:
                if other in ty and other != adt_path:
                    hits += type_mentions(g, other, needles, seen, depth - 1)
    return hits
