"""C: compile-fail witnesses. Type-level facts decided by rustc's own type checker: each
`compile_fail,E....` doctest must fail with exactly that code and its twin must compile (no_run:
nothing of gimli executes)."""
import os
import re
import shutil
import subprocess
import tempfile

from .core import VERIF, CannotDecide, REPO


def run_witnesses(rep, names, rule='C-witness', repo=REPO):
    rep.rule(rule, 'compile-fail witnesses under `cargo +nightly test --doc`: the offending program must be rejected with the stated '
             'error code and the twin that differs only in the offending line must compile')
    tmp = tempfile.mkdtemp(prefix='gimli-verif-wit-')
    try:
        w = os.path.join(tmp, 'w')
        shutil.copytree(os.path.join(VERIF, 'witness'), w)
        ct = open(os.path.join(w, 'Cargo.toml')).read().replace('path = "/repo"', 'path = "%s"' % repo)
        open(os.path.join(w, 'Cargo.toml'), 'w').write(ct)
        lock = os.path.join(repo, 'Cargo.lock')
        if os.path.exists(lock):
            shutil.copy(lock, os.path.join(w, 'Cargo.lock'))
        env = dict(os.environ, CARGO_TARGET_DIR=os.path.join(tmp, 'tgt'), CARGO_NET_OFFLINE='true')
        env.pop('RUSTC_WRAPPER', None)
        env.pop('RUSTFLAGS', None)
        r = subprocess.run(['cargo', '+nightly', 'test', '--doc', '--offline'], cwd=w, env=env, stdout=subprocess.PIPE,
                           stderr=subprocess.STDOUT, text=True)
        out = r.stdout
        results = {}
        for m in re.finditer(r'^test src/lib\.rs - (\w+) \(line \d+\) - (compile fail|compile) \.\.\. (\w+)', out, re.M):
            results[(m.group(1), m.group(2))] = m.group(3)
        if not results:
            raise CannotDecide('witness crate did not run (does /repo compile?): ' + out[-400:])
        for n in names:
            cf = results.get((n, 'compile fail'))
            tw = results.get((n, 'compile'))
            rep.check(rule, n, cf == 'ok' and tw == 'ok',
                      'witness %s: offending program %s, twin %s' % (n, 'rejected with the stated code' if cf == 'ok' else 'NOT rejected as stated (%s)' % cf,
                                                                    'compiles' if tw == 'ok' else 'does not compile (%s)' % tw),
                      'witness/src/lib.rs', why='rustc rejects the offending program with the stated error code; twin compiles')
    finally:
        shutil.rmtree(tmp, ignore_errors=True)
