//! Deliberate violations, one per zero-expected rule, analysed by the same driver as gimli on
//! every run. A rule that does not fire on its fixture is reported as broken (the check then
//! cannot decide). Nothing here is ever executed.
#![no_std]
#![allow(dead_code, clippy::all)]

use gimli::{Reader, Result};

/// An iterator that never empties its reader.
pub struct BadIter<R: Reader> {
    input: R,
}

impl<R: Reader> BadIter<R> {
    /// Advance. If an error occurs it is returned as `Err(e)`, and all subsequent calls
    /// return `Ok(None)`.  (It does not: liveness fixture for T1 and T2.)
    pub fn next(&mut self) -> Result<Option<u8>> {
        let b = self.input.read_u8()?;
        Ok(Some(b))
    }
}

/// Liveness fixture for T3: recursion depth chosen by the input.
pub fn recursive<R: Reader>(input: &mut R) -> Result<u64> {
    let v = input.read_u8()?;
    if v == 0 {
        recursive(input)
    } else {
        Ok(u64::from(v))
    }
}

/// Liveness fixture for P (overflow): an input-chosen factor.
pub fn tainted_mul<R: Reader>(input: &mut R) -> Result<u64> {
    let a = input.read_uleb128()?;
    Ok(a * 8)
}

/// Liveness fixture for P (division by an input-chosen value).
pub fn tainted_div<R: Reader>(input: &mut R) -> Result<u64> {
    let a = input.read_u64()?;
    let b = input.read_u64()?;
    Ok(a / b)
}

/// Liveness fixture for P (unwrap of an input-dependent Option).
pub fn tainted_unwrap<R: Reader>(input: &mut R) -> Result<u8> {
    let a = input.read_u64()?;
    Ok(u8::try_from(a).ok().unwrap())
}

/// Liveness fixture for N: unchecked narrowing of an input value.
pub fn narrow<R: Reader>(input: &mut R) -> Result<u8> {
    let a = input.read_u32()?;
    Ok(a as u8)
}

/// Liveness fixture for T4: a loop that re-clones its reader and therefore never progresses.
pub fn spin<R: Reader>(input: &R, want: u8) -> u64 {
    let mut n = 0u64;
    loop {
        let mut c = input.clone();
        match c.read_u8() {
            Ok(b) if b == want => return n,
            _ => n = n.wrapping_add(1),
        }
    }
}

/// Liveness fixture for R1: a section offset built from a plain integer read.
pub fn offset_from_plain_read<R: Reader<Offset = usize>>(input: &mut R) -> Result<gimli::DebugStrOffset<usize>> {
    let v = input.read_u32()?;
    Ok(gimli::DebugStrOffset(v as usize))
}

/// Liveness fixture for U0: an unsafe block outside the audited set.
pub fn peek(bytes: &[u8]) -> u8 {
    unsafe { *bytes.as_ptr() }
}
