//! Deliberate violations, one per zero-expected rule, analysed by the same driver as gimli
//! on every run. A rule that does not fire on its fixture is reported as broken.
pub fn placeholder() {}
