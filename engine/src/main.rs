// gimli-facts: rustc_private driver that dumps type-checked facts (items, ADTs, impls,
// constants, MIR bodies with resolved callees) of selected crates as one JSON file per crate.
//
// Used as RUSTC_WRAPPER: argv = [self, <rustc path>, <rustc args>...].
// Environment:
//   GIMLI_FACTS_OUT     directory to write <crate>.facts.json into (required to dump)
//   GIMLI_FACTS_CRATES  comma separated crate names to dump (default "gimli,verif_fixture")
#![feature(rustc_private)]
#![allow(clippy::all)]

extern crate rustc_abi;
extern crate rustc_ast;
extern crate rustc_data_structures;
extern crate rustc_driver;
extern crate rustc_hir;
extern crate rustc_interface;
extern crate rustc_middle;
extern crate rustc_session;
extern crate rustc_span;

use std::collections::HashMap;
use std::fmt::Write as _;

use rustc_driver::Compilation;
use rustc_hir::def::DefKind;
use rustc_hir::def_id::{DefId, LocalDefId, LOCAL_CRATE};
use rustc_middle::mir::{
    self, AggregateKind, AssertKind, BasicBlock, BinOp, Body, CastKind, Const, ConstValue, Operand,
    Place, ProjectionElem, Rvalue, StatementKind, TerminatorKind, UnOp,
};
use rustc_middle::ty::{self, Instance, Ty, TyCtxt, TypingEnv};
use rustc_span::Span;

struct UnsafeCounter {
    count: usize,
    lines: Vec<usize>,
}

impl<'v> rustc_hir::intravisit::Visitor<'v> for UnsafeCounter {
    fn visit_block(&mut self, b: &'v rustc_hir::Block<'v>) {
        if let rustc_hir::BlockCheckMode::UnsafeBlock(rustc_hir::UnsafeSource::UserProvided) = b.rules {
            self.count += 1;
            self.lines.push(b.span.lo().0 as usize);
        }
        rustc_hir::intravisit::walk_block(self, b);
    }
}

struct Cb;

impl rustc_driver::Callbacks for Cb {
    fn after_analysis<'tcx>(
        &mut self,
        _c: &rustc_interface::interface::Compiler,
        tcx: TyCtxt<'tcx>,
    ) -> Compilation {
        let out = match std::env::var("GIMLI_FACTS_OUT") {
            Ok(o) => o,
            Err(_) => return Compilation::Continue,
        };
        let crates = std::env::var("GIMLI_FACTS_CRATES")
            .unwrap_or_else(|_| "gimli,verif_fixture".to_string());
        let name = tcx.crate_name(LOCAL_CRATE).to_string();
        if !crates.split(',').any(|c| c == name) {
            return Compilation::Continue;
        }
        let mut d = Dumper { tcx, strs: Vec::new(), str_ix: HashMap::new() };
        let json = d.dump_crate(&name);
        let path = format!("{}/{}.facts.json", out, name);
        std::fs::write(&path, json).expect("write facts");
        Compilation::Continue
    }
}

fn main() {
    let mut args: Vec<String> = std::env::args().collect();
    // argv[1] is the real rustc path when used as a cargo wrapper.
    if args.len() > 1 && (args[1].ends_with("rustc") || args[1].contains("/rustc")) {
        args.remove(1);
    }
    let mut cb = Cb;
    rustc_driver::run_compiler(&args, &mut cb);
}

fn esc(s: &str) -> String {
    let mut o = String::with_capacity(s.len() + 2);
    o.push('"');
    for ch in s.chars() {
        match ch {
            '"' => o.push_str("\\\""),
            '\\' => o.push_str("\\\\"),
            '\n' => o.push_str("\\n"),
            '\r' => o.push_str("\\r"),
            '\t' => o.push_str("\\t"),
            c if (c as u32) < 0x20 => {
                let _ = write!(o, "\\u{:04x}", c as u32);
            }
            c => o.push(c),
        }
    }
    o.push('"');
    o
}

fn opt_str(s: Option<String>) -> String {
    match s {
        Some(s) => esc(&s),
        None => "null".to_string(),
    }
}

struct Dumper<'tcx> {
    tcx: TyCtxt<'tcx>,
    strs: Vec<String>,
    str_ix: HashMap<String, usize>,
}

impl<'tcx> Dumper<'tcx> {
    fn intern(&mut self, s: String) -> usize {
        if let Some(&i) = self.str_ix.get(&s) {
            return i;
        }
        let i = self.strs.len();
        self.strs.push(s.clone());
        self.str_ix.insert(s, i);
        i
    }

    fn ty_ix(&mut self, t: Ty<'tcx>) -> usize {
        let s = format!("{}", t);
        self.intern(s)
    }

    fn path(&self, d: DefId) -> String {
        self.tcx.def_path_str(d)
    }

    fn span_loc(&self, sp: Span) -> (String, usize, usize) {
        let sm = self.tcx.sess.source_map();
        let lo = sm.lookup_char_pos(sp.lo());
        let hi = sm.lookup_char_pos(sp.hi());
        let fname = match &lo.file.name {
            rustc_span::FileName::Real(r) => match r.local_path() {
                Some(p) => p.to_string_lossy().to_string(),
                None => format!("{:?}", lo.file.name),
            },
            other => format!("{:?}", other),
        };
        (fname, lo.line, hi.line)
    }

    /// Source line of the outermost call site (so that code from macro expansions is
    /// reported at the macro invocation), plus the name of the outermost macro if any.
    fn line_and_macro(&self, sp: Span) -> (usize, Option<String>) {
        let mut mac: Option<String> = None;
        let mut cur = sp;
        let mut guard = 0;
        while cur.from_expansion() && guard < 32 {
            let data = cur.ctxt().outer_expn_data();
            if let rustc_span::ExpnKind::Macro(_, name) = data.kind {
                mac = Some(name.to_string());
            } else if let rustc_span::ExpnKind::Desugaring(k) = data.kind {
                if mac.is_none() {
                    mac = Some(format!("desugar:{:?}", k));
                }
            }
            cur = data.call_site;
            guard += 1;
        }
        let sm = self.tcx.sess.source_map();
        let lo = sm.lookup_char_pos(cur.lo());
        (lo.line, mac)
    }

    fn dump_crate(&mut self, name: &str) -> String {
        let tcx = self.tcx;
        let mut fns: Vec<String> = Vec::new();
        let mut adts: Vec<String> = Vec::new();
        let mut impls: Vec<String> = Vec::new();
        let mut traits: Vec<String> = Vec::new();
        let mut consts: Vec<String> = Vec::new();
        let mut statics: Vec<String> = Vec::new();

        for ldid in tcx.hir_body_owners() {
            let kind = tcx.def_kind(ldid);
            match kind {
                DefKind::Fn | DefKind::AssocFn | DefKind::Closure => {
                    if tcx.is_mir_available(ldid.to_def_id()) {
                        let s = self.dump_fn(ldid, kind);
                        fns.push(s);
                    }
                }
                _ => {}
            }
        }

        for id in tcx.hir_crate_items(()).definitions() {
            let did = id.to_def_id();
            match tcx.def_kind(did) {
                DefKind::Struct | DefKind::Enum | DefKind::Union => {
                    adts.push(self.dump_adt(did));
                }
                DefKind::Impl { .. } => {
                    impls.push(self.dump_impl(did));
                }
                DefKind::Trait => {
                    traits.push(self.dump_trait(did));
                }
                DefKind::Const { .. } | DefKind::AssocConst { .. } => {
                    if let Some(s) = self.dump_const(did) {
                        consts.push(s);
                    }
                }
                DefKind::Static { .. } => {
                    if let Some(s) = self.dump_static(did) {
                        statics.push(s);
                    }
                }
                _ => {}
            }
        }

        let mut features: Vec<String> = Vec::new();
        for (k, v) in tcx.sess.config.iter() {
            if k.as_str() == "feature" {
                if let Some(v) = v {
                    features.push(v.to_string());
                }
            }
        }
        features.sort();

        let mut o = String::new();
        let _ = write!(o, "{{\"crate\":{},", esc(name));
        let _ = write!(
            o,
            "\"features\":[{}],",
            features.iter().map(|f| esc(f)).collect::<Vec<_>>().join(",")
        );
        let _ = write!(
            o,
            "\"overflow_checks\":{},\"debug_assertions\":{},",
            tcx.sess.overflow_checks(),
            tcx.sess.opts.debug_assertions
        );
        let _ = write!(o, "\"fns\":[\n{}\n],", fns.join(",\n"));
        let _ = write!(o, "\"adts\":[\n{}\n],", adts.join(",\n"));
        let _ = write!(o, "\"impls\":[\n{}\n],", impls.join(",\n"));
        let _ = write!(o, "\"traits\":[\n{}\n],", traits.join(",\n"));
        let _ = write!(o, "\"consts\":[\n{}\n],", consts.join(",\n"));
        let _ = write!(o, "\"statics\":[\n{}\n],", statics.join(",\n"));
        let _ = write!(
            o,
            "\"strs\":[\n{}\n]}}",
            self.strs.iter().map(|s| esc(s)).collect::<Vec<_>>().join(",\n")
        );
        o
    }

    fn vis_str(&self, did: DefId) -> String {
        match self.tcx.def_kind(did) {
            DefKind::Closure => "closure".to_string(),
            _ => match self.tcx.visibility(did) {
                ty::Visibility::Public => "pub".to_string(),
                ty::Visibility::Restricted(m) => {
                    if m.is_crate_root() {
                        "crate".to_string()
                    } else {
                        format!("in:{}", self.path(m))
                    }
                }
            },
        }
    }

    fn doc_of(&self, did: DefId) -> String {
        let mut doc = String::new();
        if let Some(ldid) = did.as_local() {
            let hir_id = self.tcx.local_def_id_to_hir_id(ldid);
            for attr in self.tcx.hir_attrs(hir_id) {
                if let Some(s) = attr.doc_str() {
                    doc.push_str(s.as_str());
                    doc.push('\n');
                }
            }
        }
        doc
    }

    fn dump_fn(&mut self, ldid: LocalDefId, kind: DefKind) -> String {
        let tcx = self.tcx;
        let did = ldid.to_def_id();
        let body: &Body<'tcx> = tcx.optimized_mir(did);
        let path = self.path(did);
        let (file, line, end_line) = self.span_loc(tcx.def_span(did));
        let (_, _, body_end) = self.span_loc(body.span);
        let mut o = String::new();
        let _ = write!(o, "{{\"path\":{},\"kind\":{},", esc(&path), esc(&format!("{:?}", kind)));
        let _ = write!(
            o,
            "\"file\":{},\"line\":{},\"end_line\":{},",
            esc(&file),
            line,
            std::cmp::max(end_line, body_end)
        );
        let _ = write!(o, "\"vis\":{},", esc(&self.vis_str(did)));
        let reachable = match kind {
            DefKind::Closure => false,
            _ => tcx.effective_visibilities(()).is_reachable(ldid),
        };
        let _ = write!(o, "\"reachable_pub\":{},", reachable);
        let name = tcx.opt_item_name(did).map(|s| s.to_string());
        let _ = write!(o, "\"name\":{},", opt_str(name));
        // parent item for closures
        let mut parent_fn: Option<String> = None;
        if matches!(kind, DefKind::Closure) {
            let p = tcx.typeck_root_def_id(did);
            parent_fn = Some(self.path(p));
        }
        let _ = write!(o, "\"parent\":{},", opt_str(parent_fn));
        // impl / trait container
        let mut impl_self: Option<String> = None;
        let mut impl_self_adt: Option<String> = None;
        let mut impl_trait: Option<String> = None;
        let mut trait_of: Option<String> = None;
        let root = tcx.typeck_root_def_id(did);
        if let Some(container) = tcx.opt_parent(root) {
            match tcx.def_kind(container) {
                DefKind::Impl { .. } => {
                    let st = tcx.type_of(container).instantiate_identity().skip_norm_wip();
                    impl_self = Some(format!("{}", st));
                    if let ty::Adt(adt, _) = st.kind() {
                        impl_self_adt = Some(self.path(adt.did()));
                    }
                    if let Some(tr) = tcx.impl_opt_trait_ref(container) {
                        let tr = tr.instantiate_identity().skip_norm_wip();
                        impl_trait = Some(self.path(tr.def_id));
                    }
                }
                DefKind::Trait => {
                    trait_of = Some(self.path(container));
                }
                _ => {}
            }
        }
        let _ = write!(
            o,
            "\"impl_self\":{},\"impl_self_adt\":{},\"impl_trait\":{},\"trait_of\":{},",
            opt_str(impl_self),
            opt_str(impl_self_adt),
            opt_str(impl_trait),
            opt_str(trait_of)
        );
        let doc = if matches!(kind, DefKind::Closure) { String::new() } else { self.doc_of(did) };
        let _ = write!(o, "\"doc\":{},", esc(&doc));
        let is_unsafe = match kind {
            DefKind::Closure => false,
            _ => tcx.fn_sig(did).skip_binder().safety().is_unsafe(),
        };
        let _ = write!(o, "\"unsafe_fn\":{},", is_unsafe);
        // user-written unsafe blocks in this body (closures are separate bodies and counted there)
        let mut uc = UnsafeCounter { count: 0, lines: Vec::new() };
        {
            use rustc_hir::intravisit::Visitor;
            let hbody = tcx.hir_body_owned_by(ldid);
            uc.visit_expr(hbody.value);
        }
        let _ = write!(o, "\"unsafe_blocks\":{},", uc.count);
        let _ = write!(o, "\"argc\":{},", body.arg_count);
        // locals
        let mut names: HashMap<usize, String> = HashMap::new();
        for vdi in body.var_debug_info.iter() {
            if let mir::VarDebugInfoContents::Place(p) = &vdi.value {
                if p.projection.is_empty() {
                    names.entry(p.local.as_usize()).or_insert_with(|| vdi.name.to_string());
                } else {
                    // closure captures etc: record as "name" on a projected place
                }
            }
        }
        let mut locs: Vec<String> = Vec::new();
        for (l, decl) in body.local_decls.iter_enumerated() {
            let t = self.ty_ix(decl.ty);
            let nm = names.get(&l.as_usize()).cloned();
            locs.push(format!("[{},{}]", t, opt_str(nm)));
        }
        let _ = write!(o, "\"locals\":[{}],", locs.join(","));
        // captured variable debug info with projections (closures)
        let mut caps: Vec<String> = Vec::new();
        for vdi in body.var_debug_info.iter() {
            if let mir::VarDebugInfoContents::Place(p) = &vdi.value {
                if !p.projection.is_empty() {
                    let pl = self.place(body, p);
                    caps.push(format!("[{},{}]", esc(&vdi.name.to_string()), pl));
                }
            }
        }
        let _ = write!(o, "\"caps\":[{}],", caps.join(","));
        // blocks
        let typing_env = TypingEnv::post_analysis(tcx, did);
        let mut blocks: Vec<String> = Vec::new();
        for (_bb, data) in body.basic_blocks.iter_enumerated() {
            let mut stmts: Vec<String> = Vec::new();
            for st in data.statements.iter() {
                match &st.kind {
                    StatementKind::Assign(b) => {
                        let (pl, rv) = &**b;
                        let (ln, mac) = self.line_and_macro(st.source_info.span);
                        let p = self.place(body, pl);
                        let r = self.rvalue(body, rv, typing_env);
                        stmts.push(format!("[\"a\",{},{},{},{}]", p, r, ln, opt_str(mac)));
                    }
                    StatementKind::SetDiscriminant { place, variant_index } => {
                        let (ln, _) = self.line_and_macro(st.source_info.span);
                        let p = self.place(body, place);
                        stmts.push(format!("[\"sd\",{},{},{}]", p, variant_index.as_usize(), ln));
                    }
                    StatementKind::Intrinsic(i) => {
                        let (ln, _) = self.line_and_macro(st.source_info.span);
                        stmts.push(format!("[\"intr\",{},{}]", esc(&format!("{:?}", i)), ln));
                    }
                    _ => {}
                }
            }
            let term = data.terminator();
            let t = self.terminator(body, term, typing_env);
            blocks.push(format!("[[{}],{}]", stmts.join(","), t));
        }
        let _ = write!(o, "\"blocks\":[\n{}\n]}}", blocks.join(",\n"));
        o
    }

    fn place(&mut self, body: &Body<'tcx>, p: &Place<'tcx>) -> String {
        let tcx = self.tcx;
        let mut o = String::new();
        let _ = write!(o, "[{}", p.local.as_usize());
        let mut pty = mir::PlaceTy::from_ty(body.local_decls[p.local].ty);
        for elem in p.projection.iter() {
            match elem {
                ProjectionElem::Deref => o.push_str(",\"*\""),
                ProjectionElem::Field(f, _) => {
                    let mut fname: Option<String> = None;
                    let mut adt_path: Option<usize> = None;
                    match pty.ty.kind() {
                        ty::Adt(adt, _) => {
                            let vidx = pty.variant_index.unwrap_or(rustc_abi::FIRST_VARIANT);
                            if adt.is_enum() || adt.is_struct() || adt.is_union() {
                                if vidx.as_usize() < adt.variants().len() {
                                    let v = adt.variant(vidx);
                                    if f.as_usize() < v.fields.len() {
                                        fname = Some(v.fields[f].name.to_string());
                                    }
                                }
                            }
                            let p = self.path(adt.did());
                            adt_path = Some(self.intern(p));
                        }
                        _ => {}
                    }
                    let _ = write!(
                        o,
                        ",[\"f\",{},{},{}]",
                        f.as_usize(),
                        opt_str(fname),
                        match adt_path {
                            Some(i) => i.to_string(),
                            None => "null".to_string(),
                        }
                    );
                }
                ProjectionElem::Index(l) => {
                    let _ = write!(o, ",[\"i\",{}]", l.as_usize());
                }
                ProjectionElem::ConstantIndex { offset, min_length, from_end } => {
                    let _ = write!(o, ",[\"ci\",{},{},{}]", offset, min_length, from_end);
                }
                ProjectionElem::Subslice { from, to, from_end } => {
                    let _ = write!(o, ",[\"sub\",{},{},{}]", from, to, from_end);
                }
                ProjectionElem::Downcast(name, vidx) => {
                    let n = name.map(|s| s.to_string());
                    let _ = write!(o, ",[\"d\",{},{}]", opt_str(n), vidx.as_usize());
                }
                ProjectionElem::OpaqueCast(_) => o.push_str(",[\"oc\"]"),
                ProjectionElem::UnwrapUnsafeBinder(_) => o.push_str(",[\"ub\"]"),
            }
            pty = pty.projection_ty(tcx, elem);
        }
        o.push(']');
        o
    }

    fn scalar_json(&self, ty: Ty<'tcx>, int: rustc_middle::ty::ScalarInt) -> String {
        let size = int.size();
        let bits = int.to_bits(size);
        match ty.kind() {
            ty::Int(_) => {
                let shift = 128 - size.bits();
                let v = if shift >= 128 { 0 } else { ((bits as i128) << shift) >> shift };
                format!("{}", v)
            }
            ty::Bool => format!("{}", bits),
            ty::Char => format!("{}", bits),
            _ => format!("{}", bits),
        }
    }

    fn const_operand(&mut self, c: &mir::ConstOperand<'tcx>, typing_env: TypingEnv<'tcx>) -> String {
        let tcx = self.tcx;
        let ty = c.const_.ty();
        let tix = self.ty_ix(ty);
        let mut o = String::new();
        let _ = write!(o, "[\"k\",{},", tix);
        match ty.kind() {
            ty::FnDef(def_id, args) => {
                let _ = write!(
                    o,
                    "{{\"fn\":{},\"args\":{}}}",
                    esc(&self.path(*def_id)),
                    esc(&format!("{:?}", args))
                );
                o.push(']');
                return o;
            }
            _ => {}
        }
        let mut named: Option<String> = None;
        if let Const::Unevaluated(uv, _) = c.const_ {
            if uv.promoted.is_none() {
                named = Some(self.path(uv.def));
            } else {
                named = Some(format!("promoted:{:?}", uv.promoted.unwrap()));
            }
        }
        // value
        let mut val: Option<String> = None;
        let is_scalar_ty = matches!(
            ty.kind(),
            ty::Int(_) | ty::Uint(_) | ty::Bool | ty::Char
        );
        let evaluated: Option<ConstValue> = match c.const_ {
            Const::Val(v, _) => Some(v),
            Const::Ty(_, tc) => {
                if let Some(leaf) = tc.try_to_leaf() {
                    if is_scalar_ty {
                        val = Some(self.scalar_json(ty, leaf));
                    }
                }
                None
            }
            Const::Unevaluated(uv, _) => {
                let has_params = format!("{:?}", uv.args).contains("/#");
                if !has_params || uv.promoted.is_some() {
                    c.const_.eval(tcx, typing_env, c.span).ok()
                } else {
                    None
                }
            }
        };
        // `&CONST` promoted to a static: follow the pointer and read the integer it points to
        if let (Some(ConstValue::Scalar(rustc_middle::mir::interpret::Scalar::Ptr(ptr, _))), ty::Ref(_, inner, _)) = (evaluated, ty.kind()) {
            let mut int_ty: Option<Ty<'tcx>> = None;
            match inner.kind() {
                ty::Int(_) | ty::Uint(_) | ty::Bool | ty::Char => int_ty = Some(*inner),
                ty::Adt(adt, args) if adt.is_struct() => {
                    let v0 = adt.non_enum_variant();
                    if v0.fields.len() == 1 {
                        let fty = v0.fields[rustc_abi::FieldIdx::from_usize(0)].ty(tcx, args);
                        if matches!(fty.kind(), ty::Int(_) | ty::Uint(_) | ty::Bool | ty::Char) {
                            int_ty = Some(fty);
                        }
                    }
                }
                _ => {}
            }
            if let Some(ity) = int_ty {
                let (prov, off) = ptr.into_raw_parts();
                if let rustc_middle::mir::interpret::GlobalAlloc::Memory(m) = tcx.global_alloc(prov.alloc_id()) {
                    let a = m.inner();
                    let size = match ity.kind() {
                        ty::Int(i) => i.bit_width().unwrap_or(64) / 8,
                        ty::Uint(u) => u.bit_width().unwrap_or(64) / 8,
                        ty::Bool => 1,
                        ty::Char => 4,
                        _ => 0,
                    } as usize;
                    let o = off.bytes() as usize;
                    if size > 0 && o + size <= a.len() {
                        let bytes = a.inspect_with_uninit_and_ptr_outside_interpreter(o..o + size);
                        let mut v: u128 = 0;
                        for (i, b) in bytes.iter().enumerate() {
                            v |= (*b as u128) << (8 * i);
                        }
                        let sv = match ity.kind() {
                            ty::Int(_) => {
                                let shift = 128 - (size as u32) * 8;
                                format!("{}", ((v as i128) << shift) >> shift)
                            }
                            _ => format!("{}", v),
                        };
                        val = Some(sv);
                    }
                }
            }
        }
        if let Some(v) = evaluated {
            if let Some(si) = v.try_to_scalar_int() {
                if is_scalar_ty {
                    val = Some(self.scalar_json(ty, si));
                } else if let ty::Adt(adt, args) = ty.kind() {
                    // newtype struct around an integer (DwForm(1) etc.)
                    if adt.is_struct() {
                        let v0 = adt.non_enum_variant();
                        if v0.fields.len() == 1 {
                            let fty = v0.fields[rustc_abi::FieldIdx::from_usize(0)].ty(tcx, args);
                            if matches!(fty.kind(), ty::Int(_) | ty::Uint(_) | ty::Bool | ty::Char) {
                                val = Some(self.scalar_json(fty, si));
                            }
                        }
                    }
                }
            } else if let ConstValue::Slice { .. } = v {
                if let ty::Ref(_, inner, _) = ty.kind() {
                    if inner.is_str() {
                        if let Some(bytes) = v.try_get_slice_bytes_for_diagnostics(tcx) {
                            val = Some(esc(&String::from_utf8_lossy(bytes)));
                        }
                    }
                }
            } else if let ConstValue::ZeroSized = v {
                val = Some("\"zst\"".to_string());
            }
        }
        let _ = write!(
            o,
            "{{\"named\":{},\"v\":{}}}",
            opt_str(named),
            val.unwrap_or_else(|| "null".to_string())
        );
        o.push(']');
        o
    }

    fn operand(&mut self, body: &Body<'tcx>, op: &Operand<'tcx>, typing_env: TypingEnv<'tcx>) -> String {
        match op {
            Operand::Copy(p) => format!("[\"c\",{}]", self.place(body, p)),
            Operand::Move(p) => format!("[\"m\",{}]", self.place(body, p)),
            Operand::Constant(c) => self.const_operand(c, typing_env),
            other => format!("[\"x\",{}]", esc(&format!("{:?}", other))),
        }
    }

    fn binop(&self, b: BinOp) -> String {
        format!("{:?}", b)
    }

    fn rvalue(&mut self, body: &Body<'tcx>, rv: &Rvalue<'tcx>, te: TypingEnv<'tcx>) -> String {
        match rv {
            Rvalue::Use(op, _) => format!("[\"use\",{}]", self.operand(body, op, te)),
            Rvalue::Repeat(op, n) => {
                format!("[\"rep\",{},{}]", self.operand(body, op, te), esc(&format!("{}", n)))
            }
            Rvalue::Ref(_, bk, p) => {
                let k = match bk {
                    mir::BorrowKind::Shared => "shared",
                    mir::BorrowKind::Fake(_) => "fake",
                    mir::BorrowKind::Mut { .. } => "mut",
                };
                format!("[\"ref\",{},\"{}\"]", self.place(body, p), k)
            }
            Rvalue::RawPtr(k, p) => {
                format!("[\"ptr\",{},{}]", self.place(body, p), esc(&format!("{:?}", k)))
            }
            Rvalue::Cast(kind, op, ty) => {
                let k = match kind {
                    CastKind::IntToInt => "IntToInt".to_string(),
                    CastKind::Transmute => "Transmute".to_string(),
                    other => format!("{:?}", other),
                };
                let src_ty = op.ty(&body.local_decls, self.tcx);
                let sidx = self.ty_ix(src_ty);
                let tidx = self.ty_ix(*ty);
                format!("[\"cast\",{},{},{},{}]", esc(&k), self.operand(body, op, te), sidx, tidx)
            }
            Rvalue::BinaryOp(op, ab) => {
                let (a, b) = &**ab;
                let aty = a.ty(&body.local_decls, self.tcx);
                let tidx = self.ty_ix(aty);
                format!(
                    "[\"bin\",{},{},{},{}]",
                    esc(&self.binop(*op)),
                    self.operand(body, a, te),
                    self.operand(body, b, te),
                    tidx
                )
            }
            Rvalue::UnaryOp(op, a) => {
                let n = match op {
                    UnOp::Not => "Not".to_string(),
                    UnOp::Neg => "Neg".to_string(),
                    other => format!("{:?}", other),
                };
                let aty = a.ty(&body.local_decls, self.tcx);
                let tidx = self.ty_ix(aty);
                format!("[\"un\",{},{},{}]", esc(&n), self.operand(body, a, te), tidx)
            }
            Rvalue::Discriminant(p) => format!("[\"discr\",{}]", self.place(body, p)),
            Rvalue::Aggregate(kind, ops) => {
                let kd = match &**kind {
                    AggregateKind::Array(_) => "[\"array\"]".to_string(),
                    AggregateKind::Tuple => "[\"tuple\"]".to_string(),
                    AggregateKind::Adt(did, vidx, _, _, union_field) => {
                        let adt = self.tcx.adt_def(*did);
                        let v = adt.variant(*vidx);
                        let fields: Vec<String> =
                            v.fields.iter().map(|f| esc(&f.name.to_string())).collect();
                        let p = self.path(*did);
                        let pi = self.intern(p);
                        format!(
                            "[\"adt\",{},{},{},[{}],{}]",
                            pi,
                            esc(&v.name.to_string()),
                            vidx.as_usize(),
                            fields.join(","),
                            match union_field {
                                Some(f) => f.as_usize().to_string(),
                                None => "null".to_string(),
                            }
                        )
                    }
                    AggregateKind::Closure(did, _) => {
                        format!("[\"closure\",{}]", esc(&self.path(*did)))
                    }
                    AggregateKind::RawPtr(..) => "[\"rawptr\"]".to_string(),
                    other => format!("[\"other\",{}]", esc(&format!("{:?}", other))),
                };
                let os: Vec<String> = ops.iter().map(|o| self.operand(body, o, te)).collect();
                format!("[\"agg\",{},[{}]]", kd, os.join(","))
            }
            Rvalue::CopyForDeref(p) => format!("[\"cfd\",{}]", self.place(body, p)),
            Rvalue::ThreadLocalRef(d) => format!("[\"tls\",{}]", esc(&self.path(*d))),
            Rvalue::WrapUnsafeBinder(op, _) => format!("[\"use\",{}]", self.operand(body, op, te)),
        }
    }

    fn callee(&mut self, body: &Body<'tcx>, func: &Operand<'tcx>, te: TypingEnv<'tcx>) -> String {
        let tcx = self.tcx;
        let fty = func.ty(&body.local_decls, tcx);
        match fty.kind() {
            ty::FnDef(def_id, args) => {
                let path = self.path(*def_id);
                let mut trait_path: Option<String> = None;
                let mut self_ty: Option<String> = None;
                let mut self_adt: Option<String> = None;
                let mut self_param = false;
                if let Some(tr) = tcx.trait_of_assoc(*def_id) {
                    trait_path = Some(self.path(tr));
                    if args.len() > 0 {
                        if let Some(t) = args[0].as_type() {
                            self_ty = Some(format!("{}", t));
                            let mut tt = t;
                            loop {
                                match tt.kind() {
                                    ty::Ref(_, inner, _) => tt = *inner,
                                    _ => break,
                                }
                            }
                            if let ty::Adt(adt, _) = tt.kind() {
                                self_adt = Some(self.path(adt.did()));
                            }
                            match tt.kind() {
                                ty::Param(_) => self_param = true,
                                ty::Alias(..) => self_param = true,
                                _ => {}
                            }
                        }
                    }
                } else if let Some(imp) = tcx.impl_of_assoc(*def_id) {
                    let st = tcx.type_of(imp).instantiate_identity().skip_norm_wip();
                    self_ty = Some(format!("{}", st));
                    if let ty::Adt(adt, _) = st.kind() {
                        self_adt = Some(self.path(adt.did()));
                    }
                }
                let mut resolved: Option<String> = None;
                let mut resolved_local = def_id.is_local();
                if trait_path.is_some() {
                    if let Ok(Some(inst)) = Instance::try_resolve(tcx, te, *def_id, args) {
                        let rd = inst.def_id();
                        if rd != *def_id {
                            resolved = Some(self.path(rd));
                            resolved_local = rd.is_local();
                        }
                    }
                }
                let name = tcx.opt_item_name(*def_id).map(|s| s.to_string());
                format!(
                    "{{\"path\":{},\"name\":{},\"trait\":{},\"self\":{},\"self_adt\":{},\"self_param\":{},\"res\":{},\"local\":{},\"gargs\":{}}}",
                    esc(&path),
                    opt_str(name),
                    opt_str(trait_path),
                    opt_str(self_ty),
                    opt_str(self_adt),
                    self_param,
                    opt_str(resolved),
                    resolved_local,
                    esc(&format!("{:?}", args))
                )
            }
            _ => {
                format!(
                    "{{\"ptr\":{},\"ty\":{}}}",
                    self.operand(body, func, te),
                    esc(&format!("{}", fty))
                )
            }
        }
    }

    fn terminator(
        &mut self,
        body: &Body<'tcx>,
        term: &mir::Terminator<'tcx>,
        te: TypingEnv<'tcx>,
    ) -> String {
        let (ln, mac) = self.line_and_macro(term.source_info.span);
        let tgt = |b: &BasicBlock| b.as_usize();
        match &term.kind {
            TerminatorKind::Goto { target } => format!("{{\"k\":\"goto\",\"t\":{}}}", tgt(target)),
            TerminatorKind::SwitchInt { discr, targets } => {
                let d = self.operand(body, discr, te);
                let dty = discr.ty(&body.local_decls, self.tcx);
                let mut vs: Vec<String> = Vec::new();
                for (v, t) in targets.iter() {
                    // sign-interpret according to discr type
                    let sv = match dty.kind() {
                        ty::Int(it) => {
                            let bits = it.bit_width().unwrap_or(64) as u32;
                            let shift = 128 - bits;
                            format!("{}", ((v as i128) << shift) >> shift)
                        }
                        _ => format!("{}", v),
                    };
                    vs.push(format!("[{},{}]", sv, tgt(&t)));
                }
                let tix = self.ty_ix(dty);
                format!(
                    "{{\"k\":\"switch\",\"d\":{},\"ty\":{},\"v\":[{}],\"o\":{},\"line\":{},\"macro\":{}}}",
                    d,
                    tix,
                    vs.join(","),
                    tgt(&targets.otherwise()),
                    ln,
                    opt_str(mac)
                )
            }
            TerminatorKind::Return => "{\"k\":\"ret\"}".to_string(),
            TerminatorKind::Unreachable => "{\"k\":\"unreachable\"}".to_string(),
            TerminatorKind::UnwindResume => "{\"k\":\"resume\"}".to_string(),
            TerminatorKind::UnwindTerminate(_) => "{\"k\":\"terminate\"}".to_string(),
            TerminatorKind::Drop { place, target, .. } => {
                format!(
                    "{{\"k\":\"drop\",\"p\":{},\"t\":{}}}",
                    self.place(body, place),
                    tgt(target)
                )
            }
            TerminatorKind::Call { func, args, destination, target, .. } => {
                let f = self.callee(body, func, te);
                let as_: Vec<String> =
                    args.iter().map(|a| self.operand(body, &a.node, te)).collect();
                let d = self.place(body, destination);
                let dty = destination.ty(&body.local_decls, self.tcx).ty;
                let dt = self.ty_ix(dty);
                format!(
                    "{{\"k\":\"call\",\"f\":{},\"a\":[{}],\"d\":{},\"dty\":{},\"t\":{},\"line\":{},\"macro\":{}}}",
                    f,
                    as_.join(","),
                    d,
                    dt,
                    match target {
                        Some(t) => tgt(t).to_string(),
                        None => "null".to_string(),
                    },
                    ln,
                    opt_str(mac)
                )
            }
            TerminatorKind::TailCall { func, args, .. } => {
                let f = self.callee(body, func, te);
                let as_: Vec<String> =
                    args.iter().map(|a| self.operand(body, &a.node, te)).collect();
                format!(
                    "{{\"k\":\"tailcall\",\"f\":{},\"a\":[{}],\"line\":{}}}",
                    f,
                    as_.join(","),
                    ln
                )
            }
            TerminatorKind::Assert { cond, expected, msg, target, .. } => {
                let c = self.operand(body, cond, te);
                let m = match &**msg {
                    AssertKind::BoundsCheck { len, index } => format!(
                        "[\"BoundsCheck\",{},{}]",
                        self.operand(body, len, te),
                        self.operand(body, index, te)
                    ),
                    AssertKind::Overflow(op, a, b) => {
                        let aty = a.ty(&body.local_decls, self.tcx);
                        let tix = self.ty_ix(aty);
                        format!(
                            "[\"Overflow\",{},{},{},{}]",
                            esc(&self.binop(*op)),
                            self.operand(body, a, te),
                            self.operand(body, b, te),
                            tix
                        )
                    }
                    AssertKind::OverflowNeg(a) => {
                        format!("[\"OverflowNeg\",{}]", self.operand(body, a, te))
                    }
                    AssertKind::DivisionByZero(a) => {
                        format!("[\"DivisionByZero\",{}]", self.operand(body, a, te))
                    }
                    AssertKind::RemainderByZero(a) => {
                        format!("[\"RemainderByZero\",{}]", self.operand(body, a, te))
                    }
                    other => format!("[\"Other\",{}]", esc(&format!("{:?}", other))),
                };
                format!(
                    "{{\"k\":\"assert\",\"c\":{},\"e\":{},\"m\":{},\"t\":{},\"line\":{},\"macro\":{}}}",
                    c,
                    expected,
                    m,
                    tgt(target),
                    ln,
                    opt_str(mac)
                )
            }
            TerminatorKind::FalseEdge { real_target, .. } => {
                format!("{{\"k\":\"goto\",\"t\":{}}}", tgt(real_target))
            }
            TerminatorKind::FalseUnwind { real_target, .. } => {
                format!("{{\"k\":\"goto\",\"t\":{}}}", tgt(real_target))
            }
            other => format!("{{\"k\":\"other\",\"text\":{}}}", esc(&format!("{:?}", other))),
        }
    }

    fn dump_adt(&mut self, did: DefId) -> String {
        let tcx = self.tcx;
        let adt = tcx.adt_def(did);
        let (file, line, _) = self.span_loc(tcx.def_span(did));
        let kind = if adt.is_enum() {
            "enum"
        } else if adt.is_union() {
            "union"
        } else {
            "struct"
        };
        let mut vs: Vec<String> = Vec::new();
        for (vidx, v) in adt.variants().iter_enumerated() {
            let discr = if adt.is_enum() {
                format!("{}", adt.discriminant_for_variant(tcx, vidx).val)
            } else {
                "null".to_string()
            };
            let mut fs: Vec<String> = Vec::new();
            for f in v.fields.iter() {
                let fty = tcx.type_of(f.did).instantiate_identity().skip_norm_wip();
                let vis = match f.vis {
                    ty::Visibility::Public => "pub".to_string(),
                    ty::Visibility::Restricted(m) => {
                        if m.is_crate_root() {
                            "crate".to_string()
                        } else {
                            format!("in:{}", self.path(m))
                        }
                    }
                };
                fs.push(format!(
                    "{{\"name\":{},\"ty\":{},\"vis\":{}}}",
                    esc(&f.name.to_string()),
                    esc(&format!("{}", fty)),
                    esc(&vis)
                ));
            }
            vs.push(format!(
                "{{\"name\":{},\"discr\":{},\"fields\":[{}]}}",
                esc(&v.name.to_string()),
                discr,
                fs.join(",")
            ));
        }
        let reachable = match did.as_local() {
            Some(l) => tcx.effective_visibilities(()).is_reachable(l),
            None => false,
        };
        format!(
            "{{\"path\":{},\"kind\":\"{}\",\"file\":{},\"line\":{},\"vis\":{},\"reachable_pub\":{},\"doc\":{},\"variants\":[{}]}}",
            esc(&self.path(did)),
            kind,
            esc(&file),
            line,
            esc(&self.vis_str(did)),
            reachable,
            esc(&self.doc_of(did)),
            vs.join(",")
        )
    }

    fn dump_impl(&mut self, did: DefId) -> String {
        let tcx = self.tcx;
        let st = tcx.type_of(did).instantiate_identity().skip_norm_wip();
        let mut self_adt: Option<String> = None;
        if let ty::Adt(adt, _) = st.kind() {
            self_adt = Some(self.path(adt.did()));
        }
        let mut trait_path: Option<String> = None;
        let mut trait_ref: Option<String> = None;
        if let Some(tr) = tcx.impl_opt_trait_ref(did) {
            let tr = tr.instantiate_identity().skip_norm_wip();
            trait_path = Some(self.path(tr.def_id));
            trait_ref = Some(format!("{:?}", tr));
        }
        let mut items: Vec<String> = Vec::new();
        for it in tcx.associated_items(did).in_definition_order() {
            let trait_item = it.trait_item_def_id().map(|d| self.path(d));
            items.push(format!(
                "{{\"name\":{},\"path\":{},\"kind\":{},\"trait_item\":{}}}",
                esc(&it.name().to_string()),
                esc(&self.path(it.def_id)),
                esc(&format!("{:?}", it.tag())),
                opt_str(trait_item)
            ));
        }
        let preds = tcx.predicates_of(did);
        let ps: Vec<String> =
            preds.predicates.iter().map(|(p, _)| esc(&format!("{:?}", p))).collect();
        let (file, line, _) = self.span_loc(tcx.def_span(did));
        let is_unsafe = match tcx.impl_opt_trait_ref(did) {
            Some(_) => tcx.impl_trait_header(did).safety.is_unsafe(),
            None => false,
        };
        format!(
            "{{\"self\":{},\"self_adt\":{},\"trait\":{},\"trait_ref\":{},\"unsafe\":{},\"file\":{},\"line\":{},\"items\":[{}],\"preds\":[{}]}}",
            esc(&format!("{}", st)),
            opt_str(self_adt),
            opt_str(trait_path),
            opt_str(trait_ref),
            is_unsafe,
            esc(&file),
            line,
            items.join(","),
            ps.join(",")
        )
    }

    fn dump_trait(&mut self, did: DefId) -> String {
        let tcx = self.tcx;
        let mut items: Vec<String> = Vec::new();
        for it in tcx.associated_items(did).in_definition_order() {
            let has_default = it.defaultness(tcx).has_value();
            let sig = match it.tag() {
                ty::AssocTag::Fn => format!("{:?}", tcx.fn_sig(it.def_id).skip_binder()),
                _ => String::new(),
            };
            items.push(format!(
                "{{\"name\":{},\"path\":{},\"kind\":{},\"has_default\":{},\"has_self\":{},\"sig\":{}}}",
                esc(&it.name().to_string()),
                esc(&self.path(it.def_id)),
                esc(&format!("{:?}", it.tag())),
                has_default,
                it.is_method(),
                esc(&sig)
            ));
        }
        let preds = tcx.explicit_super_predicates_of(did);
        let ps: Vec<String> = preds
            .iter_identity_copied()
            .map(|u| esc(&format!("{:?}", u.skip_norm_wip().0)))
            .collect();
        format!(
            "{{\"path\":{},\"items\":[{}],\"supers\":[{}]}}",
            esc(&self.path(did)),
            items.join(","),
            ps.join(",")
        )
    }

    fn dump_const(&mut self, did: DefId) -> Option<String> {
        let tcx = self.tcx;
        let ty = tcx.type_of(did).instantiate_identity().skip_norm_wip();
        // only non-generic consts
        if tcx.generics_of(did).count() != 0 {
            return None;
        }
        if let Some(p) = tcx.opt_parent(did) {
            if tcx.generics_of(p).count() != 0 {
                return None;
            }
        }
        let mut val: Option<String> = None;
        if let Ok(v) = tcx.const_eval_poly(did) {
            if let Some(si) = v.try_to_scalar_int() {
                match ty.kind() {
                    ty::Int(_) | ty::Uint(_) | ty::Bool | ty::Char => {
                        val = Some(self.scalar_json(ty, si));
                    }
                    ty::Adt(adt, args) if adt.is_struct() => {
                        let v0 = adt.non_enum_variant();
                        if v0.fields.len() == 1 {
                            let fty = v0.fields[rustc_abi::FieldIdx::from_usize(0)].ty(tcx, args);
                            if matches!(fty.kind(), ty::Int(_) | ty::Uint(_) | ty::Bool | ty::Char) {
                                val = Some(self.scalar_json(fty, si));
                            }
                        }
                    }
                    _ => {}
                }
            }
        }
        let (_, line, _) = self.span_loc(tcx.def_span(did));
        Some(format!(
            "{{\"path\":{},\"ty\":{},\"v\":{},\"line\":{}}}",
            esc(&self.path(did)),
            esc(&format!("{}", ty)),
            val.unwrap_or_else(|| "null".to_string()),
            line
        ))
    }

    fn dump_static(&mut self, did: DefId) -> Option<String> {
        let tcx = self.tcx;
        let ty = tcx.type_of(did).instantiate_identity().skip_norm_wip();
        let alloc = tcx.eval_static_initializer(did).ok()?;
        let a = alloc.inner();
        let len = a.len();
        if len > 1 << 20 {
            return None;
        }
        let bytes = a.inspect_with_uninit_and_ptr_outside_interpreter(0..len);
        let mut hex = String::with_capacity(len * 2);
        for b in bytes {
            let _ = write!(hex, "{:02x}", b);
        }
        let nptr = a.provenance().ptrs().len();
        let mut target_hex = String::new();
        let mut target_len = 0usize;
        if nptr == 1 {
            if let Some((_, prov)) = a.provenance().ptrs().iter().next() {
                if let rustc_middle::mir::interpret::GlobalAlloc::Memory(m) = tcx.global_alloc(prov.alloc_id()) {
                    let ma = m.inner();
                    target_len = ma.len();
                    if target_len <= 1 << 20 {
                        let tb = ma.inspect_with_uninit_and_ptr_outside_interpreter(0..target_len);
                        for b in tb {
                            let _ = write!(target_hex, "{:02x}", b);
                        }
                    }
                }
            }
        }
        if !target_hex.is_empty() {
            return Some(format!(
                "{{\"path\":{},\"ty\":{},\"len\":{},\"ptrs\":{},\"hex\":{},\"target_len\":{},\"target_hex\":{}}}",
                esc(&self.path(did)),
                esc(&format!("{}", ty)),
                len,
                nptr,
                esc(&hex),
                target_len,
                esc(&target_hex)
            ));
        }
        Some(format!(
            "{{\"path\":{},\"ty\":{},\"len\":{},\"ptrs\":{},\"hex\":{}}}",
            esc(&self.path(did)),
            esc(&format!("{}", ty)),
            len,
            nptr,
            esc(&hex)
        ))
    }
}
