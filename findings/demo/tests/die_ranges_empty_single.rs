// Finding: `read::Dwarf::die_ranges` / `read::Dwarf::unit_ranges`
// (src/read/dwarf.rs) do not uphold "every yielded range is non-empty and begins
// below the tombstone addresses" for a DIE described by DW_AT_low_pc /
// DW_AT_high_pc. The `RangeIterInner::Single` case of `RangeIter::next` yields
// whatever `Range { begin, end }` was computed, whereas the `List` case
// (`RngListIter::next`, src/read/rnglists.rs) skips every entry with
// `begin >= min_tombstone(address_size) || begin >= end`. The same function thus
// filters tombstoned/empty/inverted ranges or not depending on whether the
// producer happened to use DW_AT_ranges or DW_AT_low_pc/DW_AT_high_pc.
//
// STATUS: REPRODUCES against gimli 0.33.1 + local fixes (debug build).
//
//   REPRODUCES (tests fail); yielded by `dwarf.die_ranges(&unit, entry)`:
//   - `equal_low_and_high_pc_address_form`: low_pc = high_pc = 0x1000 (both
//     DW_FORM_addr) yields the empty range 0x1000..0x1000.
//   - `zero_high_pc_offset`: low_pc 0x1000, high_pc DW_FORM_data4 0 yields
//     0x1000..0x1000; same for DW_FORM_udata 0.
//   - `high_pc_below_low_pc`: low_pc 0x2000, high_pc (addr) 0x1000 yields the
//     inverted range 0x2000..0x1000.
//   - `tombstone_low_pc`: address_size 8, low_pc = high_pc = 0xffff_ffff_ffff_ffff
//     yields 0xffffffffffffffff..0xffffffffffffffff; low_pc 0xffff_ffff_ffff_fffe
//     + offset 1 yields 0xfffffffffffffffe..0xffffffffffffffff; address_size 4,
//     low_pc 0xffff_ffff + offset 0x10 yields 0xffffffff..0x10000000f (the end
//     does not even fit the unit's address size).
//   - `unit_ranges_of_tombstoned_unit`: root DIE with low_pc = high_pc = 0
//     (what a linker leaves for a discarded unit when it uses 0 as tombstone)
//     makes `dwarf.unit_ranges(&unit)` yield 0x0..0x0; with -1 it yields
//     0xffffffffffffffff..0xffffffffffffffff.
//
//   Control (tests pass):
//   - `benign_ranges`: low_pc 0x1000 with high_pc (addr) 0x1010, (data4) 0x10 or
//     (udata) 0x10 yields exactly 0x1000..0x1010; and the same
//     empty/inverted/tombstone ranges given through DW_AT_ranges
//     (`.debug_ranges`) are all skipped by the very same `die_ranges` call.
//
// Public API path: read::Dwarf::load -> units() -> unit() -> entries() ->
// Dwarf::die_ranges(&unit, entry) / Dwarf::unit_ranges(&unit) -> RangeIter::next
// (also UnitRef::die_ranges / UnitRef::unit_ranges).

use gimli::{EndianSlice, LittleEndian, Range, SectionId};

#[derive(Clone, Copy)]
enum HighPc {
    /// DW_FORM_addr
    Addr(u64),
    /// DW_FORM_data4
    Data4(u32),
    /// DW_FORM_udata (single byte values only)
    Udata(u8),
}

#[derive(Clone, Copy)]
enum Die {
    LowHigh(u64, HighPc),
    /// DW_AT_ranges DW_FORM_sec_offset into `.debug_ranges`
    Ranges(u32),
}

fn debug_abbrev() -> Vec<u8> {
    vec![
        // code 1: DW_TAG_compile_unit, has children, DW_AT_low_pc DW_FORM_addr,
        // DW_AT_high_pc DW_FORM_addr
        0x01, 0x11, 0x01, 0x11, 0x01, 0x12, 0x01, 0x00, 0x00,
        // code 2: DW_TAG_subprogram, no children, low_pc addr, high_pc addr
        0x02, 0x2e, 0x00, 0x11, 0x01, 0x12, 0x01, 0x00, 0x00,
        // code 3: DW_TAG_subprogram, no children, low_pc addr, high_pc data4
        0x03, 0x2e, 0x00, 0x11, 0x01, 0x12, 0x06, 0x00, 0x00,
        // code 4: DW_TAG_subprogram, no children, low_pc addr, high_pc udata
        0x04, 0x2e, 0x00, 0x11, 0x01, 0x12, 0x0f, 0x00, 0x00,
        // code 5: DW_TAG_subprogram, no children, DW_AT_ranges DW_FORM_sec_offset
        0x05, 0x2e, 0x00, 0x55, 0x17, 0x00, 0x00, //
        0x00,
    ]
}

fn addr(value: u64, address_size: u8, out: &mut Vec<u8>) {
    out.extend_from_slice(&value.to_le_bytes()[..address_size as usize]);
}

/// A DWARF 4 unit whose root DIE has DW_AT_low_pc/DW_AT_high_pc `root` and whose
/// children are `dies`.
fn debug_info(address_size: u8, root: (u64, u64), dies: &[Die]) -> Vec<u8> {
    let mut body = Vec::new();
    body.extend_from_slice(&4u16.to_le_bytes()); // version
    body.extend_from_slice(&0u32.to_le_bytes()); // debug_abbrev_offset
    body.push(address_size);
    body.push(0x01);
    addr(root.0, address_size, &mut body);
    addr(root.1, address_size, &mut body);
    for die in dies {
        match *die {
            Die::LowHigh(low, HighPc::Addr(high)) => {
                body.push(0x02);
                addr(low, address_size, &mut body);
                addr(high, address_size, &mut body);
            }
            Die::LowHigh(low, HighPc::Data4(size)) => {
                body.push(0x03);
                addr(low, address_size, &mut body);
                body.extend_from_slice(&size.to_le_bytes());
            }
            Die::LowHigh(low, HighPc::Udata(size)) => {
                assert!(size < 0x80);
                body.push(0x04);
                addr(low, address_size, &mut body);
                body.push(size);
            }
            Die::Ranges(offset) => {
                body.push(0x05);
                body.extend_from_slice(&offset.to_le_bytes());
            }
        }
    }
    body.push(0x00); // end of children
    let mut section = Vec::new();
    section.extend_from_slice(&(body.len() as u32).to_le_bytes());
    section.extend_from_slice(&body);
    section
}

struct Ranges {
    /// `Dwarf::unit_ranges`
    unit: Vec<Range>,
    /// `Dwarf::die_ranges` for every child of the root, in order.
    dies: Vec<Vec<Range>>,
}

fn ranges(address_size: u8, root: (u64, u64), dies: &[Die], debug_ranges: &[u8]) -> Ranges {
    let abbrev = debug_abbrev();
    let info = debug_info(address_size, root, dies);
    let dwarf = gimli::read::Dwarf::load(|id| -> Result<_, gimli::Error> {
        Ok(EndianSlice::new(
            match id {
                SectionId::DebugInfo => &info[..],
                SectionId::DebugAbbrev => &abbrev[..],
                SectionId::DebugRanges => debug_ranges,
                _ => &[],
            },
            LittleEndian,
        ))
    })
    .unwrap();
    let header = dwarf.units().next().unwrap().expect("one unit");
    let unit = dwarf.unit(header).unwrap();

    let collect = |mut iter: gimli::read::RangeIter<_>| {
        let mut out = Vec::new();
        while let Some(range) = iter.next().expect("ranges should parse") {
            out.push(range);
        }
        out
    };

    let unit_ranges = collect(dwarf.unit_ranges(&unit).expect("unit_ranges should succeed"));
    let mut die_ranges = Vec::new();
    let mut entries = unit.entries();
    entries.next_dfs().unwrap().expect("root");
    while let Some(entry) = entries.next_dfs().unwrap() {
        die_ranges.push(collect(
            dwarf
                .die_ranges(&unit, entry)
                .expect("die_ranges should succeed"),
        ));
    }
    assert_eq!(die_ranges.len(), dies.len());
    Ranges {
        unit: unit_ranges,
        dies: die_ranges,
    }
}

fn fmt(ranges: &[Range]) -> String {
    let v: Vec<String> = ranges
        .iter()
        .map(|r| format!("{:#x}..{:#x}", r.begin, r.end))
        .collect();
    format!("[{}]", v.join(", "))
}

/// The property: every yielded range is non-empty and begins below the
/// tombstone addresses (-1 and -2 for the unit's address size).
fn check(what: &str, address_size: u8, ranges: &[Range]) {
    let max = !0u64 >> (64 - u32::from(address_size) * 8);
    for range in ranges {
        assert!(
            range.begin < range.end && range.begin < max - 1,
            "{}: yielded an empty/inverted/tombstone range: {}",
            what,
            fmt(ranges)
        );
    }
}

const GOOD_ROOT: (u64, u64) = (0x1000, 0x3000);

fn die_ranges(address_size: u8, die: Die) -> Vec<Range> {
    ranges(address_size, GOOD_ROOT, &[die], &[])
        .dies
        .remove(0)
}

/// Sanity check: well formed DIEs yield their range, and the `DW_AT_ranges` path
/// of the same function skips empty, inverted and tombstone ranges.
#[test]
fn benign_ranges() {
    let expected = [Range {
        begin: 0x1000,
        end: 0x1010,
    }];
    for high in [HighPc::Addr(0x1010), HighPc::Data4(0x10), HighPc::Udata(0x10)] {
        assert_eq!(die_ranges(8, Die::LowHigh(0x1000, high)), expected);
        assert_eq!(die_ranges(4, Die::LowHigh(0x1000, high)), expected);
    }

    // .debug_ranges list (address_size 8): empty, inverted, -1 tombstone is a
    // base address selection so use -2, a good range, end of list.
    let mut debug_ranges = Vec::new();
    for (begin, end) in [
        (0x1000u64, 0x1000u64),
        (0x2000, 0x1000),
        (0xffff_ffff_ffff_fffe, 0xffff_ffff_ffff_ffff),
        (0x1000, 0x1010),
        (0, 0),
    ] {
        debug_ranges.extend_from_slice(&begin.to_le_bytes());
        debug_ranges.extend_from_slice(&end.to_le_bytes());
    }
    // Root low_pc 0 so that the list's addresses are not offset.
    let result = ranges(8, (0, 0x3000), &[Die::Ranges(0)], &debug_ranges);
    assert_eq!(result.dies[0], expected);
    assert_eq!(
        result.unit,
        [Range {
            begin: 0,
            end: 0x3000
        }]
    );
}

// Reproduces: yields [0x1000..0x1000]
#[test]
fn equal_low_and_high_pc_address_form() {
    let ranges = die_ranges(8, Die::LowHigh(0x1000, HighPc::Addr(0x1000)));
    check("low_pc == high_pc (DW_FORM_addr)", 8, &ranges);
}

// Reproduces: yields [0x1000..0x1000]
#[test]
fn zero_high_pc_offset() {
    let data4 = die_ranges(8, Die::LowHigh(0x1000, HighPc::Data4(0)));
    let udata = die_ranges(8, Die::LowHigh(0x1000, HighPc::Udata(0)));
    println!("data4: {}, udata: {}", fmt(&data4), fmt(&udata));
    check("high_pc = DW_FORM_data4 0", 8, &data4);
    check("high_pc = DW_FORM_udata 0", 8, &udata);
}

// Reproduces: yields [0x2000..0x1000]
#[test]
fn high_pc_below_low_pc() {
    let ranges = die_ranges(8, Die::LowHigh(0x2000, HighPc::Addr(0x1000)));
    check("high_pc < low_pc (DW_FORM_addr)", 8, &ranges);
}

// Reproduces: yields [0xffffffffffffffff..0xffffffffffffffff],
// [0xfffffffffffffffe..0xffffffffffffffff] and [0xffffffff..0x10000000f]
#[test]
fn tombstone_low_pc() {
    let both = die_ranges(
        8,
        Die::LowHigh(0xffff_ffff_ffff_ffff, HighPc::Addr(0xffff_ffff_ffff_ffff)),
    );
    let minus2 = die_ranges(8, Die::LowHigh(0xffff_ffff_ffff_fffe, HighPc::Udata(1)));
    let size4 = die_ranges(4, Die::LowHigh(0xffff_ffff, HighPc::Data4(0x10)));
    println!(
        "both -1: {}, -2 + 1: {}, 32-bit -1 + 0x10: {}",
        fmt(&both),
        fmt(&minus2),
        fmt(&size4)
    );
    let mut failures = Vec::new();
    for (what, size, ranges) in [
        ("low_pc = high_pc = -1 (8 byte)", 8, &both),
        ("low_pc = -2, size 1 (8 byte)", 8, &minus2),
        ("low_pc = -1, size 0x10 (4 byte)", 4, &size4),
    ] {
        if std::panic::catch_unwind(|| check(what, size, ranges)).is_err() {
            failures.push(format!("{}: {}", what, fmt(ranges)));
        }
    }
    assert!(failures.is_empty(), "tombstone ranges yielded: {:#?}", failures);
}

// Reproduces: yields [0x0..0x0] and [0xffffffffffffffff..0xffffffffffffffff]
#[test]
fn unit_ranges_of_tombstoned_unit() {
    let zero = ranges(8, (0, 0), &[], &[]).unit;
    let minus1 = ranges(8, (!0, !0), &[], &[]).unit;
    println!("0: {}, -1: {}", fmt(&zero), fmt(&minus1));
    check("unit_ranges, root low_pc = high_pc = 0", 8, &zero);
    check("unit_ranges, root low_pc = high_pc = -1", 8, &minus1);
}
