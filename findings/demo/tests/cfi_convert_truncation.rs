// Finding: `gimli::write::FrameTable::from` (src/write/cfi.rs `mod convert`) narrows the
// operands of call-frame instructions with plain `as i32` / `as u32` / `as u8` casts (source
// comment: "TODO: validate integer type conversions"). An offset that does not fit is silently
// truncated, so the converted table means something else than the input (property C12: "never
// silently drops, truncates or retargets anything"), instead of the conversion failing.
//
// The test converts a frame with DW_CFA_def_cfa_offset 0x1_0000_0020, writes the converted table
// and reads it back; it passes when the conversion fails or the offset survives, and fails when a
// different offset comes back.

use gimli::{DebugFrame, LittleEndian};
use std::panic::{catch_unwind, AssertUnwindSafe};

fn uleb(mut val: u64, out: &mut Vec<u8>) {
    loop {
        let byte = (val & 0x7f) as u8;
        val >>= 7;
        if val == 0 {
            out.push(byte);
            return;
        }
        out.push(byte | 0x80);
    }
}

fn sleb(mut val: i64, out: &mut Vec<u8>) {
    loop {
        let byte = (val & 0x7f) as u8;
        val >>= 7;
        let done = (val == 0 && byte & 0x40 == 0) || (val == -1 && byte & 0x40 != 0);
        if done {
            out.push(byte);
            return;
        }
        out.push(byte | 0x80);
    }
}

fn entry(body: &[u8]) -> Vec<u8> {
    let mut body = body.to_vec();
    // Pad with DW_CFA_nop so that the entry is a multiple of 8 bytes.
    while (4 + body.len()) % 8 != 0 {
        body.push(0x00);
    }
    let mut out = Vec::new();
    out.extend_from_slice(&(body.len() as u32).to_le_bytes());
    out.extend_from_slice(&body);
    out
}

/// A .debug_frame section with one version 4 CIE (code_alignment_factor 4,
/// data_alignment_factor -8) and one FDE with the given instructions.
fn debug_frame(fde_instructions: &[u8]) -> Vec<u8> {
    let mut cie = Vec::new();
    cie.extend_from_slice(&0xffff_ffffu32.to_le_bytes()); // CIE_id
    cie.push(4); // version
    cie.push(0); // augmentation ""
    cie.push(8); // address_size
    cie.push(0); // segment_selector_size
    uleb(4, &mut cie); // code_alignment_factor
    sleb(-8, &mut cie); // data_alignment_factor
    uleb(16, &mut cie); // return_address_register
    let mut section = entry(&cie);

    let mut fde = Vec::new();
    fde.extend_from_slice(&0u32.to_le_bytes()); // CIE_pointer
    fde.extend_from_slice(&0x1000u64.to_le_bytes()); // initial_location
    fde.extend_from_slice(&0x100u64.to_le_bytes()); // address_range
    fde.extend_from_slice(fde_instructions);
    section.extend_from_slice(&entry(&fde));
    section
}


use gimli::write::{EndianVec, Writer};
use gimli::{BaseAddresses, CallFrameInstruction, CieOrFde, UnwindSection};

#[test]
fn def_cfa_offset_is_not_silently_truncated() {
    let wanted: u64 = 0x1_0000_0020;
    let mut instructions = Vec::new();
    instructions.push(0x0e); // DW_CFA_def_cfa_offset
    uleb(wanted, &mut instructions);
    let section = debug_frame(&instructions);
    let debug_frame = DebugFrame::new(&section, LittleEndian);
    let table = match gimli::write::FrameTable::from(&debug_frame, &|address| {
        Some(gimli::write::Address::Constant(address))
    }) {
        Ok(t) => t,
        Err(_) => return, // failing is an acceptable outcome
    };
    let mut out = gimli::write::DebugFrame::from(EndianVec::new(LittleEndian));
    table.write_debug_frame(&mut out).expect("write");
    let bytes = out.slice().to_vec();
    let mut reread = DebugFrame::new(&bytes, LittleEndian);
    reread.set_address_size(8);
    let bases = BaseAddresses::default();
    let mut entries = reread.entries(&bases);
    let mut seen = Vec::new();
    while let Some(entry) = entries.next().expect("entry") {
        if let CieOrFde::Fde(partial) = entry {
            let fde = partial
                .parse(|_, bases, o| reread.cie_from_offset(bases, o))
                .expect("fde");
            let mut iter = fde.instructions(&reread, &bases);
            while let Some(i) = iter.next().expect("instruction") {
                if let CallFrameInstruction::DefCfaOffset { offset } = i {
                    seen.push(offset);
                }
                if let CallFrameInstruction::DefCfaOffsetSf { factored_offset } = i {
                    seen.push((factored_offset * -8) as u64);
                }
            }
        }
    }
    assert_eq!(seen, vec![wanted], "converted frame table has a different CFA offset than the input");
}
