// Finding: `gimli::read::ArangeEntryIter::next` is not fused after an error.
//
// STATUS: REPRODUCES (test fails against gimli 0.33.1).
//
// The documentation of `ArangeEntryIter::next` says:
//   "If an error occurs while parsing the next arange, then this error is
//    returned as `Err(e)`, and all subsequent calls return `Ok(None)`."
//
// A tuple whose `begin + length` overflows the address size makes `next`
// return `Err(AddressOverflow)` (from `convert_raw`), but the iterator's input
// is not emptied on that path, so the next call yields the following tuple.
//
// Public API path: DebugAranges::new -> headers() -> ArangeHeader::entries()
// -> ArangeEntryIter::next.

use gimli::{DebugAranges, LittleEndian};

fn section() -> Vec<u8> {
    let mut body = Vec::new();
    body.extend_from_slice(&2u16.to_le_bytes()); // version
    body.extend_from_slice(&0u32.to_le_bytes()); // debug_info_offset
    body.push(4); // address_size
    body.push(0); // segment_size
    // Header so far: 4 (length) + 2 + 4 + 1 + 1 = 12; tuple size 8 => 4 bytes padding.
    body.extend_from_slice(&[0; 4]);
    // Tuple 1: begin + length overflows a 4 byte address.
    body.extend_from_slice(&0xffff_fff0u32.to_le_bytes());
    body.extend_from_slice(&0x100u32.to_le_bytes());
    // Tuple 2: valid.
    body.extend_from_slice(&0x1000u32.to_le_bytes());
    body.extend_from_slice(&0x10u32.to_le_bytes());
    // Terminator.
    body.extend_from_slice(&0u32.to_le_bytes());
    body.extend_from_slice(&0u32.to_le_bytes());

    let mut section = Vec::new();
    section.extend_from_slice(&(body.len() as u32).to_le_bytes());
    section.extend_from_slice(&body);
    section
}

#[test]
fn arange_entry_iter_is_fused_after_error() {
    let buf = section();
    let debug_aranges = DebugAranges::new(&buf, LittleEndian);
    let mut headers = debug_aranges.headers();
    let header = headers
        .next()
        .expect("header should parse")
        .expect("there should be one header");
    assert_eq!(header.encoding().address_size, 4);

    let mut entries = header.entries();
    let first = entries.next();
    assert!(
        first.is_err(),
        "expected the overflowing tuple to give an error, got {:?}",
        first
    );

    // Documented contract: every later call returns Ok(None).
    for i in 0..4 {
        let next = entries.next();
        assert!(
            matches!(next, Ok(None)),
            "call #{} after the error {:?} returned {:?}, expected Ok(None)",
            i + 1,
            first,
            next
        );
    }
}
