// Finding: `gimli::write::FrameTable::from` (src/write/cfi.rs `mod convert`)
// multiplies factored offsets by the CIE's data_alignment_factor, and advance_loc
// deltas by the code_alignment_factor, without overflow checks. With overflow
// checks enabled (debug build) a crafted .debug_frame makes the conversion panic
// with "attempt to multiply with overflow" / "attempt to add with overflow"
// instead of returning an error.
//
// STATUS: REPRODUCES (all three tests fail against gimli 0.33.1, debug build).
//
// Public API path: read::DebugFrame::new -> write::FrameTable::from(&debug_frame,
// &convert_address).

use gimli::{DebugFrame, LittleEndian};
use std::panic::{catch_unwind, AssertUnwindSafe};

fn uleb(mut val: u64, out: &mut Vec<u8>) {
    loop {
        let byte = (val & 0x7f) as u8;
        val >>= 7;
        if val == 0 {
            out.push(byte);
            return;
        }
        out.push(byte | 0x80);
    }
}

fn sleb(mut val: i64, out: &mut Vec<u8>) {
    loop {
        let byte = (val & 0x7f) as u8;
        val >>= 7;
        let done = (val == 0 && byte & 0x40 == 0) || (val == -1 && byte & 0x40 != 0);
        if done {
            out.push(byte);
            return;
        }
        out.push(byte | 0x80);
    }
}

fn entry(body: &[u8]) -> Vec<u8> {
    let mut body = body.to_vec();
    // Pad with DW_CFA_nop so that the entry is a multiple of 8 bytes.
    while (4 + body.len()) % 8 != 0 {
        body.push(0x00);
    }
    let mut out = Vec::new();
    out.extend_from_slice(&(body.len() as u32).to_le_bytes());
    out.extend_from_slice(&body);
    out
}

/// A .debug_frame section with one version 4 CIE (code_alignment_factor 4,
/// data_alignment_factor -8) and one FDE with the given instructions.
fn debug_frame(fde_instructions: &[u8]) -> Vec<u8> {
    let mut cie = Vec::new();
    cie.extend_from_slice(&0xffff_ffffu32.to_le_bytes()); // CIE_id
    cie.push(4); // version
    cie.push(0); // augmentation ""
    cie.push(8); // address_size
    cie.push(0); // segment_selector_size
    uleb(4, &mut cie); // code_alignment_factor
    sleb(-8, &mut cie); // data_alignment_factor
    uleb(16, &mut cie); // return_address_register
    let mut section = entry(&cie);

    let mut fde = Vec::new();
    fde.extend_from_slice(&0u32.to_le_bytes()); // CIE_pointer
    fde.extend_from_slice(&0x1000u64.to_le_bytes()); // initial_location
    fde.extend_from_slice(&0x100u64.to_le_bytes()); // address_range
    fde.extend_from_slice(fde_instructions);
    section.extend_from_slice(&entry(&fde));
    section
}

fn convert_does_not_panic(fde_instructions: &[u8]) {
    let section = debug_frame(fde_instructions);
    let debug_frame = DebugFrame::new(&section, LittleEndian);
    let result = catch_unwind(AssertUnwindSafe(|| {
        gimli::write::FrameTable::from(&debug_frame, &|address| {
            Some(gimli::write::Address::Constant(address))
        })
        .map(|_| ())
        .map_err(|e| e.to_string())
    }));
    match result {
        Ok(result) => println!("FrameTable::from returned {:?}", result),
        Err(payload) => {
            let msg = payload
                .downcast_ref::<&str>()
                .map(|s| s.to_string())
                .or_else(|| payload.downcast_ref::<String>().cloned())
                .unwrap_or_default();
            panic!("FrameTable::from panicked: {}", msg);
        }
    }
}

/// Sanity check that the hand-assembled section is well formed.
#[test]
fn benign_fde_converts() {
    let mut instructions = Vec::new();
    instructions.push(0x13); // DW_CFA_def_cfa_offset_sf
    sleb(-2, &mut instructions);
    instructions.push(0x04); // DW_CFA_advance_loc4
    instructions.extend_from_slice(&4u32.to_le_bytes());
    instructions.push(0x0e); // DW_CFA_def_cfa_offset
    uleb(32, &mut instructions);

    let section = debug_frame(&instructions);
    let debug_frame = DebugFrame::new(&section, LittleEndian);
    let table = gimli::write::FrameTable::from(&debug_frame, &|address| {
        Some(gimli::write::Address::Constant(address))
    })
    .expect("benign FDE should convert");
    assert_eq!(table.cie_count(), 1);
    assert_eq!(table.fde_count(), 1);
}

#[test]
fn def_cfa_offset_sf_times_data_alignment_does_not_panic() {
    let mut instructions = Vec::new();
    instructions.push(0x13); // DW_CFA_def_cfa_offset_sf
    sleb(i64::MIN / 4, &mut instructions); // * -8 overflows i64
    convert_does_not_panic(&instructions);
}

#[test]
fn advance_loc4_times_code_alignment_does_not_panic() {
    let mut instructions = Vec::new();
    instructions.push(0x04); // DW_CFA_advance_loc4
    instructions.extend_from_slice(&0xffff_ffffu32.to_le_bytes()); // * 4 overflows u32
    instructions.push(0x0e); // DW_CFA_def_cfa_offset
    uleb(32, &mut instructions);
    convert_does_not_panic(&instructions);
}

#[test]
fn advance_loc4_sum_does_not_panic() {
    let mut instructions = Vec::new();
    for _ in 0..2 {
        instructions.push(0x04); // DW_CFA_advance_loc4
        // 0x3fff_ffff * 4 fits in u32, but adding it twice does not.
        instructions.extend_from_slice(&0x3fff_ffffu32.to_le_bytes());
    }
    instructions.push(0x0e); // DW_CFA_def_cfa_offset
    uleb(32, &mut instructions);
    convert_does_not_panic(&instructions);
}
