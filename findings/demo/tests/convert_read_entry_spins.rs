// Suspicion: `gimli::write::FilterUnit::read_entry` / `gimli::write::ConvertUnit::read_entry`
// return the same `Err` forever when a DIE's last attribute is truncated, so a
// caller that does `Err(_) => continue` never terminates.
//
// STATUS: NOT REPRODUCIBLE (test passes against gimli 0.33.1).
//
// Both functions return `Ok(false)` / `Ok(None)` as soon as the underlying
// `EntriesRaw` input is empty, and otherwise start by reading a ULEB128
// abbreviation code, which consumes at least one byte of a non-empty input even
// when the call later fails. Every call therefore makes progress, and the
// number of calls is bounded by the number of bytes in the unit. The errors do
// differ from call to call (the tail of the truncated DIE is re-interpreted as
// abbreviation codes), but the loop always ends.
//
// The test drives both `FilterUnit::read_entry` and (via
// `Dwarf::convert_with_filter`) `ConvertUnit::read_entry` over a unit whose
// last DIE has a DW_FORM_data4 attribute with only 2 bytes left in the unit,
// for all 65536 values of those 2 bytes.
//
// Public API path: read::Dwarf::load -> write::FilterUnitSection::new ->
// read_unit -> FilterUnit::read_entry; write::Dwarf::convert_with_filter ->
// ConvertUnitSection::read_unit -> ConvertUnit::read_entry.

use gimli::{EndianSlice, LittleEndian, SectionId};

const MAX_CALLS: usize = 10_000;

fn debug_abbrev() -> Vec<u8> {
    vec![
        // code 1: DW_TAG_compile_unit, has children, DW_AT_name DW_FORM_string
        0x01, 0x11, 0x01, 0x03, 0x08, 0x00, 0x00,
        // code 2: DW_TAG_variable, no children, DW_AT_const_value DW_FORM_data4
        0x02, 0x34, 0x00, 0x1c, 0x06, 0x00, 0x00, //
        0x00,
    ]
}

fn debug_info(tail: [u8; 2]) -> Vec<u8> {
    let mut body = Vec::new();
    body.extend_from_slice(&4u16.to_le_bytes()); // version
    body.extend_from_slice(&0u32.to_le_bytes()); // debug_abbrev_offset
    body.push(4); // address_size
    body.extend_from_slice(&[0x01, b'a', 0x00]); // root DIE
    body.extend_from_slice(&[0x02, 0x11, 0x22, 0x33, 0x44]); // complete child DIE
    body.push(0x02); // child DIE, DW_FORM_data4 follows...
    body.extend_from_slice(&tail); // ...but only 2 bytes remain in the unit
    let mut section = Vec::new();
    section.extend_from_slice(&(body.len() as u32).to_le_bytes());
    section.extend_from_slice(&body);
    section
}

fn load<'a>(
    debug_info: &'a [u8],
    debug_abbrev: &'a [u8],
) -> gimli::read::Dwarf<EndianSlice<'a, LittleEndian>> {
    gimli::read::Dwarf::load(|id| -> Result<_, gimli::Error> {
        Ok(EndianSlice::new(
            match id {
                SectionId::DebugInfo => debug_info,
                SectionId::DebugAbbrev => debug_abbrev,
                _ => &[],
            },
            LittleEndian,
        ))
    })
    .unwrap()
}

#[test]
fn filter_unit_read_entry_terminates_on_truncated_attribute() {
    let abbrev = debug_abbrev();
    let mut saw_error = false;
    for tail in 0..=u16::MAX {
        let info = debug_info(tail.to_le_bytes());
        let read_dwarf = load(&info, &abbrev);
        let mut filter = gimli::write::FilterUnitSection::new(&read_dwarf).unwrap();
        let mut unit = filter
            .read_unit()
            .expect("unit header should parse")
            .expect("there should be a unit");
        let mut entry = unit.null_entry();
        let mut ended = false;
        for _ in 0..MAX_CALLS {
            match unit.read_entry(&mut entry) {
                Ok(false) => {
                    ended = true;
                    break;
                }
                Ok(true) => {}
                Err(_) => {
                    saw_error = true;
                    continue;
                }
            }
        }
        assert!(
            ended,
            "FilterUnit::read_entry did not end within {} calls (tail {:#06x})",
            MAX_CALLS, tail
        );
    }
    assert!(saw_error, "the truncated attribute should have given an error");
}

#[test]
fn convert_unit_read_entry_terminates_on_truncated_attribute() {
    let abbrev = debug_abbrev();
    let mut saw_error = false;
    for tail in 0..=u16::MAX {
        let info = debug_info(tail.to_le_bytes());
        let read_dwarf = load(&info, &abbrev);

        // `Dwarf::convert` pre-scans every DIE and so rejects the truncated unit
        // up front. Going through a filter (whose errors are ignored) is the only
        // way to reach `ConvertUnit::read_entry` with a truncated DIE.
        let mut filter = gimli::write::FilterUnitSection::new(&read_dwarf).unwrap();
        {
            let mut unit = filter.read_unit().unwrap().unwrap();
            let mut entry = unit.null_entry();
            for _ in 0..MAX_CALLS {
                match unit.read_entry(&mut entry) {
                    Ok(false) => break,
                    Ok(true) => unit.require_entry(entry.offset),
                    Err(_) => continue,
                }
            }
        }
        assert!(matches!(filter.read_unit(), Ok(None)));

        let mut write_dwarf = gimli::write::Dwarf::new();
        let mut convert = write_dwarf.convert_with_filter(filter).unwrap();
        let (mut unit, root_entry) = convert
            .read_unit()
            .expect("root DIE should parse")
            .expect("there should be a unit");
        let mut entry = root_entry;
        let mut ended = false;
        for _ in 0..MAX_CALLS {
            match unit.read_entry(&mut entry) {
                Ok(None) => {
                    ended = true;
                    break;
                }
                Ok(Some(_)) => {}
                Err(_) => {
                    saw_error = true;
                    continue;
                }
            }
        }
        assert!(
            ended,
            "ConvertUnit::read_entry did not end within {} calls (tail {:#06x})",
            MAX_CALLS, tail
        );
    }
    assert!(saw_error, "the truncated attribute should have given an error");
}
