// Finding: converting a `.debug_line` program (read -> write) panics on
// `assert!`s in `write::LineProgram::new` / `write::LineProgram::add_file`
// (src/write/line.rs) for malformed input, instead of returning a
// `ConvertError`.
//
// STATUS: PARTLY REPRODUCES against gimli 0.33.1 (debug build).
//
//   REPRODUCES (tests fail):
//   - `line_base_plus_line_range_as_i8_not_positive`: header with line_base = -5,
//     line_range = 200. `LineProgram::new` evaluates
//     `assert!(line_base + line_range as i8 > 0)`; 200 as i8 is -56, so the
//     assertion fails.
//   - `line_base_plus_line_range_as_i8_overflows`: header with line_base = -128,
//     line_range = 255. The same expression is `-128i8 + -1i8`, which panics with
//     "attempt to add with overflow".
//   - `define_file_with_empty_name`: DWARF 4 program containing
//     DW_LNE_define_file with an empty file name hits `assert!(!val.is_empty())`
//     in `LineProgram::add_file`.
//
//   DOES NOT REPRODUCE (tests pass):
//   - `positive_line_base`: line_base = 1 is rejected up front with
//     `ConvertError::InvalidLineBase` before `LineProgram::new` is called.
//   - `v5_empty_directory_and_file_names`: in DWARF <= 4 headers an empty
//     directory/file name cannot be expressed (it terminates the list), and for
//     DWARF 5 the `is_empty` asserts are skipped (they only apply to version <= 4)
//     and the strings are interned as `LineStringRef`s, so nothing panics.
//
// Public API path: read::DebugLine::program -> write::Dwarf::read_line_program
// -> ConvertLineProgram::convert. (The same `ConvertLineProgram` is used by
// `write::Dwarf::from` / `ConvertUnit::convert` for a unit's DW_AT_stmt_list.)

use gimli::{DebugLineOffset, EndianSlice, LittleEndian, SectionId};
use std::panic::{catch_unwind, AssertUnwindSafe};

struct Header {
    line_base: i8,
    line_range: u8,
}

fn with_length(body: &[u8]) -> Vec<u8> {
    let mut out = Vec::new();
    out.extend_from_slice(&(body.len() as u32).to_le_bytes());
    out.extend_from_slice(body);
    out
}

/// A DWARF 4 `.debug_line` section with one include directory ("dir") and one
/// file ("file.c"), followed by `program`.
fn debug_line_v4(header: &Header, program: &[u8]) -> Vec<u8> {
    let mut h = Vec::new();
    h.push(1); // minimum_instruction_length
    h.push(1); // maximum_operations_per_instruction
    h.push(1); // default_is_stmt
    h.push(header.line_base as u8);
    h.push(header.line_range);
    h.push(13); // opcode_base
    h.extend_from_slice(&[0, 1, 1, 1, 1, 0, 0, 0, 1, 0, 0, 1]); // standard_opcode_lengths
    h.extend_from_slice(b"dir\0");
    h.push(0); // end of include_directories
    h.extend_from_slice(b"file.c\0");
    h.extend_from_slice(&[1, 0, 0]); // directory index, mtime, length
    h.push(0); // end of file_names

    let mut body = Vec::new();
    body.extend_from_slice(&4u16.to_le_bytes()); // version
    body.extend_from_slice(&with_length(&h)); // header_length + header
    body.extend_from_slice(program);
    with_length(&body)
}

/// A DWARF 5 `.debug_line` section whose second directory and second file have
/// empty names (DW_FORM_string "").
fn debug_line_v5_empty_names(program: &[u8]) -> Vec<u8> {
    let mut h = Vec::new();
    h.push(1); // minimum_instruction_length
    h.push(1); // maximum_operations_per_instruction
    h.push(1); // default_is_stmt
    h.push(-5i8 as u8); // line_base
    h.push(14); // line_range
    h.push(13); // opcode_base
    h.extend_from_slice(&[0, 1, 1, 1, 1, 0, 0, 0, 1, 0, 0, 1]); // standard_opcode_lengths
    // directory_entry_format: DW_LNCT_path DW_FORM_string
    h.extend_from_slice(&[1, 0x01, 0x08]);
    h.push(2); // directories_count
    h.extend_from_slice(b"/comp/dir\0");
    h.extend_from_slice(b"\0"); // empty directory name
    // file_name_entry_format: DW_LNCT_path DW_FORM_string, DW_LNCT_directory_index DW_FORM_udata
    h.extend_from_slice(&[2, 0x01, 0x08, 0x02, 0x0f]);
    h.push(2); // file_names_count
    h.extend_from_slice(b"file.c\0");
    h.push(0);
    h.extend_from_slice(b"\0"); // empty file name
    h.push(1);

    let mut body = Vec::new();
    body.extend_from_slice(&5u16.to_le_bytes()); // version
    body.push(8); // address_size
    body.push(0); // segment_selector_size
    body.extend_from_slice(&with_length(&h)); // header_length + header
    body.extend_from_slice(program);
    with_length(&body)
}

/// DW_LNE_set_address 0x1000; DW_LNS_copy; DW_LNS_advance_pc 4; DW_LNE_end_sequence
fn simple_program() -> Vec<u8> {
    let mut p = vec![0x00, 9, 0x02];
    p.extend_from_slice(&0x1000u64.to_le_bytes());
    p.extend_from_slice(&[0x01, 0x02, 0x04, 0x00, 0x01, 0x01]);
    p
}

/// Convert the line program at offset 0 of `debug_line`.
///
/// Returns `Ok(description)`/`Err(description)` for the conversion result, and
/// panics with a descriptive message if the conversion panicked.
fn convert(debug_line: &[u8]) -> Result<String, String> {
    let result = catch_unwind(AssertUnwindSafe(|| -> Result<String, String> {
        let read_dwarf = gimli::read::Dwarf::load(|id| -> Result<_, gimli::Error> {
            Ok(EndianSlice::new(
                match id {
                    SectionId::DebugLine => debug_line,
                    _ => &[],
                },
                LittleEndian,
            ))
        })
        .map_err(|e| e.to_string())?;
        let read_program = read_dwarf
            .debug_line
            .program(DebugLineOffset(0), 8, None, None)
            .expect("the reader should accept this line program header");
        let mut write_dwarf = gimli::write::Dwarf::new();
        let convert = write_dwarf
            .read_line_program(&read_dwarf, read_program, None, None)
            .map_err(|e| format!("{:?}", e))?;
        let (program, files) = convert
            .convert(&|address| Some(gimli::write::Address::Constant(address)))
            .map_err(|e| format!("{:?}", e))?;
        Ok(format!(
            "program with {} files ({} mapped)",
            program.files().count(),
            files.len()
        ))
    }));
    match result {
        Ok(result) => result,
        Err(payload) => {
            let msg = payload
                .downcast_ref::<&str>()
                .map(|s| s.to_string())
                .or_else(|| payload.downcast_ref::<String>().cloned())
                .unwrap_or_default();
            panic!("line program conversion panicked: {}", msg);
        }
    }
}

/// Sanity check that the hand-assembled sections are well formed.
#[test]
fn benign_programs_convert() {
    let header = Header {
        line_base: -5,
        line_range: 14,
    };
    convert(&debug_line_v4(&header, &simple_program())).expect("benign v4 program should convert");
}

// Does not reproduce: rejected with ConvertError::InvalidLineBase.
#[test]
fn positive_line_base() {
    let header = Header {
        line_base: 1,
        line_range: 14,
    };
    let result = convert(&debug_line_v4(&header, &simple_program()));
    assert_eq!(result, Err("InvalidLineBase".to_string()));
}

// Reproduces: assertion failed: line_encoding.line_base + line_encoding.line_range as i8 > 0
#[test]
fn line_base_plus_line_range_as_i8_not_positive() {
    let header = Header {
        line_base: -5,
        line_range: 200,
    };
    let result = convert(&debug_line_v4(&header, &simple_program()));
    println!("conversion returned {:?}", result);
}

// Reproduces: attempt to add with overflow
#[test]
fn line_base_plus_line_range_as_i8_overflows() {
    let header = Header {
        line_base: -128,
        line_range: 255,
    };
    let result = convert(&debug_line_v4(&header, &simple_program()));
    println!("conversion returned {:?}", result);
}

// Reproduces: assertion failed: !val.is_empty()
#[test]
fn define_file_with_empty_name() {
    let header = Header {
        line_base: -5,
        line_range: 14,
    };
    // DW_LNE_define_file: name "", directory index 0, mtime 0, length 0.
    let mut program = vec![0x00, 5, 0x03, 0x00, 0x00, 0x00, 0x00];
    program.extend_from_slice(&simple_program());
    let result = convert(&debug_line_v4(&header, &program));
    println!("conversion returned {:?}", result);
}

// Does not reproduce: the emptiness asserts only apply to version <= 4.
#[test]
fn v5_empty_directory_and_file_names() {
    let result = convert(&debug_line_v5_empty_names(&simple_program()));
    println!("conversion returned {:?}", result);
}
