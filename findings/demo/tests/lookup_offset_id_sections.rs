// Finding: `read::Dwarf::lookup_offset_id` (and therefore
// `read::Dwarf::format_error`, src/read/dwarf.rs) is documented as "Call
// `Reader::lookup_offset_id` for each section, and return the first match", but
// its chain only asks debug_abbrev, debug_addr, debug_aranges, debug_info,
// debug_line, debug_line_str, debug_str, debug_str_offsets, debug_types,
// locations (debug_loc + debug_loclists) and ranges (debug_ranges +
// debug_rnglists). The `Dwarf` fields `debug_macinfo`, `debug_macro` and
// `debug_names` are not asked, so a `ReaderOffsetId` that points into one of
// those sections is never resolved and `format_error` cannot say where an
// `UnexpectedEof` from the macro / name index parsers happened.
//
// STATUS: REPRODUCES against gimli 0.33.1 + local fixes (debug build).
//
//   REPRODUCES (tests fail):
//   - `every_loaded_section_is_looked_up`: for the 16 sections loaded by
//     `Dwarf::load`, `dwarf.lookup_offset_id(<id of section start + 1>)` returns
//     `Some((false, id, 1))` for 13 of them and `None` for
//     [DebugMacinfo, DebugMacro, DebugNames]. In particular
//     `dwarf.lookup_offset_id(dwarf.debug_macro.reader().offset_id())` is `None`
//     while the same call for debug_info is `Some((false, DebugInfo, 0))`.
//   - `format_error_locates_eof_in_macro_and_names_sections`: a truncated
//     `.debug_macro` unit (`dwarf.macros(..)` + `MacroIter::next`), a truncated
//     `.debug_macinfo` entry (`dwarf.macinfo(..)`) and a truncated `.debug_names`
//     header (`dwarf.debug_names.headers().next()`) all fail with
//     `Error::UnexpectedEof(id)`; `dwarf.format_error(err)` returns just
//     "unexpected end of input" for them, whereas for a
//     truncated `.debug_info` unit header it returns
//     "unexpected end of input at .debug_info+0x4".
//
//   Control (test passes):
//   - `benign_debug_info_is_looked_up`: ids in `.debug_info` resolve, an id
//     outside every section resolves to `None`.
//
// Public API path: read::Dwarf::load -> Dwarf::lookup_offset_id /
// Dwarf::format_error (also reachable as UnitRef -> Deref<Dwarf>).

use gimli::{
    DebugMacinfoOffset, DebugMacroOffset, EndianSlice, LittleEndian, Reader, ReaderOffsetId,
    Section, SectionId,
};

type Slice<'a> = EndianSlice<'a, LittleEndian>;

const SECTIONS: [SectionId; 16] = [
    SectionId::DebugAbbrev,
    SectionId::DebugAddr,
    SectionId::DebugAranges,
    SectionId::DebugInfo,
    SectionId::DebugLine,
    SectionId::DebugLineStr,
    SectionId::DebugMacinfo,
    SectionId::DebugMacro,
    SectionId::DebugNames,
    SectionId::DebugStr,
    SectionId::DebugStrOffsets,
    SectionId::DebugTypes,
    SectionId::DebugLoc,
    SectionId::DebugLocLists,
    SectionId::DebugRanges,
    SectionId::DebugRngLists,
];

/// Every section is `SLOT` bytes of one buffer, and only the first `LEN` bytes of
/// a slot are given to gimli, so that the sections' address ranges are disjoint
/// and not adjacent (`EndianSlice::lookup_offset_id` is end-inclusive).
const SLOT: usize = 64;
const LEN: usize = 32;

fn content(id: SectionId) -> Vec<u8> {
    match id {
        // Truncated unit header: unit_length 0x40, version 4, then nothing.
        SectionId::DebugInfo => vec![0x40, 0, 0, 0, 4, 0],
        // Version 5, flags 0, DW_MACRO_define, line 1, unterminated string.
        SectionId::DebugMacro => vec![5, 0, 0, 0x01, 1, b'F', b'O', b'O'],
        // DW_MACINFO_define, line 1, unterminated string.
        SectionId::DebugMacinfo => vec![0x01, 1, b'F', b'O', b'O'],
        // Truncated name index header: unit_length 0x40, version 5, padding.
        SectionId::DebugNames => vec![0x40, 0, 0, 0, 5, 0, 0, 0],
        _ => vec![0; 8],
    }
}

struct Sections {
    buf: Vec<u8>,
    lens: Vec<usize>,
}

impl Sections {
    fn new(full_slots: bool) -> Self {
        let mut buf = vec![0u8; SLOT * SECTIONS.len()];
        let mut lens = Vec::new();
        for (i, id) in SECTIONS.iter().enumerate() {
            let data = content(*id);
            buf[i * SLOT..][..data.len()].copy_from_slice(&data);
            lens.push(if full_slots { LEN } else { data.len() });
        }
        Sections { buf, lens }
    }

    fn get(&self, id: SectionId) -> &[u8] {
        match SECTIONS.iter().position(|s| *s == id) {
            Some(i) => &self.buf[i * SLOT..][..self.lens[i]],
            None => &[],
        }
    }

    fn load(&self) -> gimli::read::Dwarf<Slice<'_>> {
        let dwarf = gimli::read::Dwarf::load(|id| -> Result<_, gimli::Error> {
            Ok(EndianSlice::new(self.get(id), LittleEndian))
        })
        .unwrap();
        // The sections in question really are part of `Dwarf` and non-empty.
        assert_eq!(dwarf.debug_macinfo.reader().len(), self.get(SectionId::DebugMacinfo).len());
        assert_eq!(dwarf.debug_macro.reader().len(), self.get(SectionId::DebugMacro).len());
        assert_eq!(dwarf.debug_names.reader().len(), self.get(SectionId::DebugNames).len());
        assert!(dwarf.debug_macro.reader().len() > 0);
        dwarf
    }
}

/// Sanity check: ids in `.debug_info` are resolved; an id outside of every
/// section is not.
#[test]
fn benign_debug_info_is_looked_up() {
    let sections = Sections::new(true);
    let dwarf = sections.load();
    let id = dwarf.debug_info.reader().offset_id();
    assert_eq!(
        dwarf.lookup_offset_id(id),
        Some((false, SectionId::DebugInfo, 0))
    );
    assert_eq!(
        dwarf.lookup_offset_id(ReaderOffsetId(id.0 + 7)),
        Some((false, SectionId::DebugInfo, 7))
    );
    // In the padding between two sections.
    assert_eq!(dwarf.lookup_offset_id(ReaderOffsetId(id.0 + LEN as u64 + 8)), None);
}

// Reproduces: None for [DebugMacinfo, DebugMacro, DebugNames]
#[test]
fn every_loaded_section_is_looked_up() {
    let sections = Sections::new(true);
    let dwarf = sections.load();

    // The formulation from the suspicion.
    println!(
        "debug_info: {:?}, debug_macro: {:?}, debug_macinfo: {:?}, debug_names: {:?}",
        dwarf.lookup_offset_id(dwarf.debug_info.reader().offset_id()),
        dwarf.lookup_offset_id(dwarf.debug_macro.reader().offset_id()),
        dwarf.lookup_offset_id(dwarf.debug_macinfo.reader().offset_id()),
        dwarf.lookup_offset_id(dwarf.debug_names.reader().offset_id()),
    );

    let mut found = Vec::new();
    let mut missing = Vec::new();
    for id in SECTIONS {
        let offset_id = ReaderOffsetId(sections.get(id).as_ptr() as u64 + 1);
        match dwarf.lookup_offset_id(offset_id) {
            Some(result) => {
                assert_eq!(result, (false, id, 1));
                found.push(id);
            }
            None => missing.push(id),
        }
    }
    println!("found: {:?}", found);
    assert!(
        missing.is_empty(),
        "Dwarf::lookup_offset_id returned None for ids inside {:?} ({} of {} sections resolved)",
        missing,
        found.len(),
        SECTIONS.len()
    );
}

// Reproduces: format_error returns the bare "unexpected end of input" (no
// " at <section>+0x<offset>") for .debug_macro, .debug_macinfo and .debug_names.
#[test]
fn format_error_locates_eof_in_macro_and_names_sections() {
    let sections = Sections::new(false);
    let dwarf = sections.load();

    let info_err = dwarf
        .units()
        .next()
        .expect_err("truncated .debug_info unit header");
    let macro_err = {
        let mut iter = dwarf
            .macros(DebugMacroOffset(0))
            .expect("macro unit header is complete");
        iter.next().expect_err("unterminated macro string")
    };
    let macinfo_err = {
        let mut iter = dwarf.macinfo(DebugMacinfoOffset(0)).unwrap();
        iter.next().expect_err("unterminated macinfo string")
    };
    let names_err = dwarf
        .debug_names
        .headers()
        .next()
        .expect_err("truncated .debug_names header");

    let mut messages = Vec::new();
    for (section, err) in [
        (".debug_info", info_err),
        (".debug_macro", macro_err),
        (".debug_macinfo", macinfo_err),
        (".debug_names", names_err),
    ] {
        assert!(
            matches!(err, gimli::Error::UnexpectedEof(_)),
            "{}: unexpected error {:?}",
            section,
            err
        );
        messages.push((section, dwarf.format_error(err)));
    }
    println!("{:#?}", messages);
    // Control: the mechanism works for .debug_info.
    assert!(messages[0].1.contains(" at .debug_info+0x"), "{:?}", messages[0]);
    let unlocated: Vec<_> = messages
        .iter()
        .filter(|(section, message)| !message.contains(&format!(" at {}+0x", section)))
        .collect();
    assert!(
        unlocated.is_empty(),
        "format_error did not locate the UnexpectedEof for: {:#?}",
        unlocated
    );
}
