// Finding: the filtered read -> write conversion (`FilterUnitSection` /
// `FilterUnit::read_entry` + `write::Dwarf::convert_with_filter`, `mod convert`
// of src/write/unit.rs) is documented to record that "the DIE depends on any
// DIEs that are referenced by its attributes", and it does follow references
// made from DWARF expressions (`FilterUnit::add_expression_refs`) for
// DW_OP_call2/call4/call_ref, the DW_OP_*_type operations and
// DW_OP_GNU_parameter_ref. It does NOT follow
//   - DW_OP_implicit_pointer / DW_OP_GNU_implicit_pointer,
//   - DW_OP_GNU_variable_value,
//   - any reference nested inside DW_OP_entry_value(<expr>),
// although `write::Expression::from` (src/write/op.rs) converts all of these with
// `convert_debug_info_ref` / `convert_unit_ref` and recurses into
// DW_OP_entry_value. The referenced DIE is therefore pruned by the filter and the
// conversion of the (required) referencing DIE then fails.
//
// STATUS: REPRODUCES against gimli 0.33.1 + local fixes (debug build).
//
//   REPRODUCES (tests fail):
//   - `implicit_pointer_target_is_retained`: conversion returns
//     Err(InvalidDebugInfoRef).
//   - `gnu_variable_value_target_is_retained`: conversion returns
//     Err(InvalidDebugInfoRef).
//   - `call4_nested_in_entry_value_target_is_retained`: conversion returns
//     Err(InvalidUnitRef).
//
//   Controls (tests pass):
//   - `benign_direct_call4_target_is_retained`: the same unit with a top-level
//     DW_OP_call4 to B converts, B is retained, and after writing and reading
//     back the DW_OP_call4 offset designates the DIE named "b".
//   - `benign_unfiltered_conversion_accepts_all_inputs`: `write::Dwarf::from`
//     (no filter) converts all four inputs, so the inputs are well formed and the
//     failure is caused by the filter only.
//
// Public API path: FilterUnitSection::new -> read_unit -> FilterUnit::read_entry
// / require_entry -> write::Dwarf::convert_with_filter ->
// ConvertUnitSection::read_unit -> ConvertUnit::read_entry / add_entry /
// convert_attribute_value (exactly the rustdoc examples of `convert_with_filter`
// and `ConvertUnit`).
//
// Input: one DWARF 5 compile unit with two top-level DW_TAG_variable DIEs:
//   B "b": DW_AT_const_value 42 (not required, referenced by nothing but A's
//          location expression)
//   A "a": DW_AT_location <exprloc referencing B> (required: the test's
//          `need_entry` requires every DIE that has a DW_AT_location)

use gimli::write::ConvertError;
use gimli::{constants, EndianSlice, LittleEndian, SectionId};

type Slice<'a> = EndianSlice<'a, LittleEndian>;

fn debug_abbrev() -> Vec<u8> {
    vec![
        // code 1: DW_TAG_compile_unit, has children, DW_AT_name DW_FORM_string
        0x01, 0x11, 0x01, 0x03, 0x08, 0x00, 0x00,
        // code 2: DW_TAG_variable, no children, DW_AT_name DW_FORM_string,
        // DW_AT_location DW_FORM_exprloc
        0x02, 0x34, 0x00, 0x03, 0x08, 0x02, 0x18, 0x00, 0x00,
        // code 3: DW_TAG_variable, no children, DW_AT_name DW_FORM_string,
        // DW_AT_const_value DW_FORM_data1
        0x03, 0x34, 0x00, 0x03, 0x08, 0x1c, 0x0b, 0x00, 0x00, //
        0x00,
    ]
}

/// Offset of DIE B, both unit-relative and `.debug_info`-relative (the unit is at
/// section offset 0): 12 bytes of DWARF 5 unit header + 3 bytes of root DIE.
const B_OFFSET: u32 = 15;

/// `expr` builds A's location expression from the offset of B.
fn debug_info(expr: &[u8]) -> Vec<u8> {
    let mut body = Vec::new();
    body.extend_from_slice(&5u16.to_le_bytes()); // version
    body.push(0x01); // DW_UT_compile
    body.push(8); // address_size
    body.extend_from_slice(&0u32.to_le_bytes()); // debug_abbrev_offset
    body.extend_from_slice(&[0x01, b'u', 0x00]); // root DIE
    assert_eq!(body.len() + 4, B_OFFSET as usize);
    body.extend_from_slice(&[0x03, b'b', 0x00, 42]); // B
    body.extend_from_slice(&[0x02, b'a', 0x00]); // A
    assert!(expr.len() < 0x80);
    body.push(expr.len() as u8);
    body.extend_from_slice(expr);
    body.push(0x00); // end of children
    let mut section = Vec::new();
    section.extend_from_slice(&(body.len() as u32).to_le_bytes());
    section.extend_from_slice(&body);
    section
}

/// DW_OP_implicit_pointer <.debug_info offset of B> 0
fn expr_implicit_pointer() -> Vec<u8> {
    let mut e = vec![0xa0];
    e.extend_from_slice(&B_OFFSET.to_le_bytes());
    e.push(0x00);
    e
}

/// DW_OP_GNU_variable_value <.debug_info offset of B>; DW_OP_stack_value
fn expr_variable_value() -> Vec<u8> {
    let mut e = vec![0xfd];
    e.extend_from_slice(&B_OFFSET.to_le_bytes());
    e.push(0x9f);
    e
}

/// DW_OP_call4 <unit offset of B>
fn expr_call4() -> Vec<u8> {
    let mut e = vec![0x99];
    e.extend_from_slice(&B_OFFSET.to_le_bytes());
    e
}

/// DW_OP_entry_value(DW_OP_call4 <unit offset of B>); DW_OP_stack_value
fn expr_entry_value_call4() -> Vec<u8> {
    let inner = expr_call4();
    let mut e = vec![0xa3, inner.len() as u8];
    e.extend_from_slice(&inner);
    e.push(0x9f);
    e
}

fn load<'a>(info: &'a [u8], abbrev: &'a [u8]) -> gimli::read::Dwarf<Slice<'a>> {
    gimli::read::Dwarf::load(|id| -> Result<_, gimli::Error> {
        Ok(EndianSlice::new(
            match id {
                SectionId::DebugInfo => info,
                SectionId::DebugAbbrev => abbrev,
                _ => &[],
            },
            LittleEndian,
        ))
    })
    .unwrap()
}

/// The names of the DIEs that were converted (children of the root), and the
/// written sections.
struct Converted {
    names: Vec<String>,
    debug_info: Vec<u8>,
    debug_abbrev: Vec<u8>,
}

fn child_names(dwarf: &gimli::write::Dwarf) -> Vec<String> {
    let mut names = Vec::new();
    for (_, unit) in dwarf.units.iter() {
        for child in unit.get(unit.root()).children() {
            let entry = unit.get(*child);
            assert_eq!(entry.tag(), constants::DW_TAG_variable);
            match entry.get(constants::DW_AT_name) {
                Some(gimli::write::AttributeValue::String(s)) => {
                    names.push(String::from_utf8_lossy(s).into_owned())
                }
                other => panic!("unexpected DW_AT_name {:?}", other),
            }
        }
    }
    names.sort();
    names
}

fn write_out(mut dwarf: gimli::write::Dwarf) -> Converted {
    let names = child_names(&dwarf);
    let mut sections = gimli::write::Sections::new(gimli::write::EndianVec::new(LittleEndian));
    dwarf.write(&mut sections).expect("writing should succeed");
    Converted {
        names,
        debug_info: sections.debug_info.slice().to_vec(),
        debug_abbrev: sections.debug_abbrev.slice().to_vec(),
    }
}

/// The filtered conversion, following the rustdoc examples of
/// `write::Dwarf::convert_with_filter` and `write::ConvertUnit`.
///
/// `need_entry` is "the DIE has a DW_AT_location".
fn convert_filtered(expr: &[u8]) -> Result<Converted, ConvertError> {
    let abbrev = debug_abbrev();
    let info = debug_info(expr);
    let read_dwarf = load(&info, &abbrev);

    let mut required = Vec::new();
    let mut filter = gimli::write::FilterUnitSection::new(&read_dwarf)?;
    while let Some(mut unit) = filter.read_unit()? {
        let mut entry = unit.null_entry();
        while unit.read_entry(&mut entry)? {
            if entry.attr(constants::DW_AT_location).is_some() {
                unit.require_entry(entry.offset);
                required.push(entry.offset.0);
            }
        }
    }
    // Only A is explicitly required.
    assert_eq!(required, [B_OFFSET as usize + 4]);

    let mut write_dwarf = gimli::write::Dwarf::new();
    let mut convert = write_dwarf.convert_with_filter(filter)?;
    while let Some((mut unit, root_entry)) = convert.read_unit()? {
        let root_id = unit.unit.root();
        convert_attributes(&mut unit, root_id, &root_entry)?;
        let mut entry = root_entry;
        while let Some(id) = unit.read_entry(&mut entry)? {
            if id.is_none() {
                continue;
            }
            let id = unit.add_entry(id, &entry);
            convert_attributes(&mut unit, id, &entry)?;
        }
    }
    Ok(write_out(write_dwarf))
}

fn convert_attributes<R: gimli::Reader<Offset = usize>>(
    unit: &mut gimli::write::ConvertUnit<'_, R>,
    id: gimli::write::UnitEntryId,
    entry: &gimli::write::ConvertUnitEntry<'_, R>,
) -> gimli::write::ConvertResult<()> {
    for attr in &entry.attrs {
        let value = unit.convert_attribute_value(entry.read_unit, attr, &|address| {
            Some(gimli::write::Address::Constant(address))
        })?;
        unit.unit.get_mut(id).set(attr.name(), value);
    }
    Ok(())
}

fn convert_unfiltered(expr: &[u8]) -> Result<Converted, ConvertError> {
    let abbrev = debug_abbrev();
    let info = debug_info(expr);
    let read_dwarf = load(&info, &abbrev);
    let write_dwarf = gimli::write::Dwarf::from(&read_dwarf, &|address| {
        Some(gimli::write::Address::Constant(address))
    })?;
    Ok(write_out(write_dwarf))
}

/// Read the converted sections back. Returns the name of the DIE that the first
/// DIE reference found in A's DW_AT_location (looking into DW_OP_entry_value too)
/// designates.
fn referenced_name(converted: &Converted) -> String {
    let dwarf = load(&converted.debug_info, &converted.debug_abbrev);
    let header = dwarf.units().next().unwrap().expect("one unit");
    let unit = dwarf.unit(header).unwrap();
    let mut entries = unit.entries();
    let mut target = None;
    let mut names = Vec::new();
    while let Some(entry) = entries.next_dfs().unwrap() {
        if let Some(name) = entry.attr_value(constants::DW_AT_name) {
            let name = dwarf.attr_string(&unit, name).unwrap();
            names.push((entry.offset(), name.to_string_lossy().into_owned()));
        }
        if let Some(gimli::read::AttributeValue::Exprloc(expr)) =
            entry.attr_value(constants::DW_AT_location)
        {
            target = find_ref(&unit, expr);
        }
    }
    let target = target.expect("A's location should still contain a DIE reference");
    names
        .iter()
        .find(|(offset, _)| *offset == target)
        .map(|(_, name)| name.clone())
        .unwrap_or_else(|| {
            panic!(
                "dangling reference to {:?}; DIEs are {:?}",
                target, names
            )
        })
}

fn find_ref<'a>(
    unit: &gimli::read::Unit<Slice<'a>>,
    expr: gimli::read::Expression<Slice<'a>>,
) -> Option<gimli::UnitOffset> {
    let mut ops = expr.operations(unit.encoding());
    while let Some(op) = ops.next().unwrap() {
        match op {
            gimli::read::Operation::ImplicitPointer { value, .. }
            | gimli::read::Operation::VariableValue { offset: value } => {
                return value.to_unit_offset(&unit.header);
            }
            gimli::read::Operation::Call {
                offset: gimli::read::DieReference::UnitRef(offset),
            } => return Some(offset),
            gimli::read::Operation::EntryValue { expression } => {
                return find_ref(unit, gimli::read::Expression(expression));
            }
            _ => {}
        }
    }
    None
}

fn check_filtered(expr: &[u8]) {
    let result = convert_filtered(expr);
    let converted = match result {
        Ok(converted) => converted,
        Err(e) => panic!(
            "filtered conversion failed with {:?}: the DIE referenced from the required DIE's \
             location expression was pruned by the filter",
            e
        ),
    };
    assert_eq!(converted.names, ["a", "b"], "B should have been retained");
    assert_eq!(referenced_name(&converted), "b");
}

/// Sanity check: the inputs are well formed; without a filter every one of them
/// converts and the reference still designates B after writing.
#[test]
fn benign_unfiltered_conversion_accepts_all_inputs() {
    for expr in [
        expr_call4(),
        expr_implicit_pointer(),
        expr_variable_value(),
        expr_entry_value_call4(),
    ] {
        let converted = convert_unfiltered(&expr).expect("unfiltered conversion should succeed");
        assert_eq!(converted.names, ["a", "b"]);
        assert_eq!(referenced_name(&converted), "b");
    }
}

/// Control: a top-level DW_OP_call4 reference is followed by the filter.
#[test]
fn benign_direct_call4_target_is_retained() {
    check_filtered(&expr_call4());
}

// Reproduces: Err(InvalidDebugInfoRef)
#[test]
fn implicit_pointer_target_is_retained() {
    check_filtered(&expr_implicit_pointer());
}

// Reproduces: Err(InvalidDebugInfoRef)
#[test]
fn gnu_variable_value_target_is_retained() {
    check_filtered(&expr_variable_value());
}

// Reproduces: Err(InvalidUnitRef)
#[test]
fn call4_nested_in_entry_value_target_is_retained() {
    check_filtered(&expr_entry_value_call4());
}
