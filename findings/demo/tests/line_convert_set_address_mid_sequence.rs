// Finding: read -> write conversion of a `.debug_line` program
// (`write::ConvertLineProgram`, `mod convert` of src/write/line.rs) does not
// reproduce the source rows when a DW_LNE_set_address occurs in the MIDDLE of a
// sequence, after the address has already advanced past the sequence's first
// address.
//
// Cause: `ConvertLineProgram::read_row` executes `SetAddress(0)` on its internal
// `read::LineRow` "so that all addresses are offsets". If that row's address
// (= offset from the previous DW_LNE_set_address) is already > 0, then
// `read::LineRow::execute` sees `0 < self.address`, classifies the 0 as a
// tombstone (the reader's "lower address in the same sequence" heuristic), keeps
// the old address, and ignores every following address advance until the next
// DW_LNE_set_address / DW_LNE_end_sequence. The converter only checks its own
// `tombstone` flag (val == -1), so it keeps yielding rows, all carrying the
// stale address offset.
//
// STATUS: REPRODUCES against gimli 0.33.1 + local fixes (debug build).
//
// Source program (version 4, min_inst_len 1, address_size 8):
//   set_address 0x1000; copy; advance_pc 4; advance_line 1; copy;
//   set_address 0x2000; advance_line 1; copy; advance_pc 8; advance_line 1; copy;
//   advance_pc 4; end_sequence
//
//   REPRODUCES (tests fail):
//   - `mid_sequence_set_address_round_trips` (convert(), write, read back):
//       original  rows: (0x1000,1) (0x1004,2) (0x2000,3) (0x2008,4) (0x200c,end)
//       converted rows: (0x1000,1) (0x1004,2) (0x2000,3) (0x2000,4) (0x2000,end)
//     i.e. the advance_pc 8 and advance_pc 4 after the mid-sequence set_address
//     are lost: row 4 is at 0x2000 instead of 0x2008 and the sequence ends at
//     0x2000 instead of 0x200c (an empty range for lines 3 and 4). The first row
//     after the set_address is right only because two errors cancel: `read_row`
//     reports the stale offset +4, and `write::LineProgram::set_address` does
//     not reset `prev_row.address_offset` (also 4), so the writer emits an
//     advance of 4 - 4 = 0.
//   - `mid_sequence_set_address_read_row_offsets`: `read_row` yields
//       SetAddress(0x1000) Row(+0,line 1) Row(+4,line 2) SetAddress(0x2000)
//       Row(+4,line 3) Row(+4,line 4) EndSequence(+4)
//     instead of the documented offsets from the new address
//     (+0, +8, EndSequence(+12)). A user who applies these offsets to the new
//     base address himself (the purpose of `read_row`) gets 0x2004/0x2004/0x2004.
//   - `mid_sequence_set_address_read_sequence_offsets`: same through
//     `read_sequence`: the second chunk is start Some(0x2000), rows +4/+4,
//     end Length(4) instead of rows +0/+8, end Length(12).
//   - `writer_accepts_offsets_relative_to_mid_sequence_set_address` (related,
//     writer side): giving `write::LineProgram` the documented offsets
//     (set_address 0x2000, then rows +0, +8) panics at src/write/line.rs:496
//     "assertion failed: self.row.address_offset >= self.prev_row.address_offset"
//     because `set_address` keeps the previous row's offset. So correcting
//     `read_row` alone would turn the wrong rows into a debug-build panic in
//     `convert()`; `LineProgram::set_address` has to reset the offset as well.
//     (`LineRow::address_offset` is documented as "offset from the start address
//     of the sequence", `ConvertLineRow::SetAddress` as "offset from this
//     address"; the two only agree for the first set_address of a sequence.)
//
//   Control (tests pass):
//   - `benign_programs_round_trip`: a plain one-sequence program round-trips, and
//     so does a mid-sequence set_address that comes directly after the first row
//     (internal address offset still 0, so `0 < 0` is false and no tombstone).
//
// Public API path: read::DebugLine::program -> write::Dwarf::read_line_program
// -> ConvertLineProgram::convert / read_row / read_sequence ->
// write::LineProgram::write. The same `ConvertLineProgram::convert` is used by
// `write::Dwarf::from` / `ConvertUnit::convert` for a unit's DW_AT_stmt_list.

use gimli::write::{ConvertLineRow, ConvertLineSequenceEnd};
use gimli::{DebugLineOffset, EndianSlice, LittleEndian, SectionId};

fn with_length(body: &[u8]) -> Vec<u8> {
    let mut out = Vec::new();
    out.extend_from_slice(&(body.len() as u32).to_le_bytes());
    out.extend_from_slice(body);
    out
}

/// A DWARF 4 `.debug_line` section with one include directory ("dir") and one
/// file ("file.c"), followed by `program`.
fn debug_line_v4(program: &[u8]) -> Vec<u8> {
    let mut h = Vec::new();
    h.push(1); // minimum_instruction_length
    h.push(1); // maximum_operations_per_instruction
    h.push(1); // default_is_stmt
    h.push(-5i8 as u8); // line_base
    h.push(14); // line_range
    h.push(13); // opcode_base
    h.extend_from_slice(&[0, 1, 1, 1, 1, 0, 0, 0, 1, 0, 0, 1]); // standard_opcode_lengths
    h.extend_from_slice(b"dir\0");
    h.push(0); // end of include_directories
    h.extend_from_slice(b"file.c\0");
    h.extend_from_slice(&[1, 0, 0]); // directory index, mtime, length
    h.push(0); // end of file_names

    let mut body = Vec::new();
    body.extend_from_slice(&4u16.to_le_bytes()); // version
    body.extend_from_slice(&with_length(&h)); // header_length + header
    body.extend_from_slice(program);
    with_length(&body)
}

fn set_address(address: u64, p: &mut Vec<u8>) {
    p.extend_from_slice(&[0x00, 9, 0x02]);
    p.extend_from_slice(&address.to_le_bytes());
}

const COPY: u8 = 0x01;
const ADVANCE_PC: u8 = 0x02;
const ADVANCE_LINE: u8 = 0x03;
const END_SEQUENCE: [u8; 3] = [0x00, 0x01, 0x01];

/// set_address 0x1000; copy; advance_pc 4; advance_line 1; copy; advance_pc 4;
/// end_sequence
fn simple_program() -> Vec<u8> {
    let mut p = Vec::new();
    set_address(0x1000, &mut p);
    p.extend_from_slice(&[COPY, ADVANCE_PC, 4, ADVANCE_LINE, 1, COPY, ADVANCE_PC, 4]);
    p.extend_from_slice(&END_SEQUENCE);
    p
}

/// set_address 0x1000; copy; [advance_pc `first_advance`;] advance_line 1; copy;
/// set_address 0x2000; advance_line 1; copy; advance_pc 8; advance_line 1; copy;
/// advance_pc 4; end_sequence
fn mid_sequence_program(first_advance: u8) -> Vec<u8> {
    let mut p = Vec::new();
    set_address(0x1000, &mut p);
    p.push(COPY);
    if first_advance != 0 {
        p.extend_from_slice(&[ADVANCE_PC, first_advance]);
    }
    p.extend_from_slice(&[ADVANCE_LINE, 1, COPY]);
    set_address(0x2000, &mut p);
    p.extend_from_slice(&[ADVANCE_LINE, 1, COPY]);
    p.extend_from_slice(&[ADVANCE_PC, 8, ADVANCE_LINE, 1, COPY]);
    p.extend_from_slice(&[ADVANCE_PC, 4]);
    p.extend_from_slice(&END_SEQUENCE);
    p
}

fn load(debug_line: &[u8]) -> gimli::read::Dwarf<EndianSlice<'_, LittleEndian>> {
    gimli::read::Dwarf::load(|id| -> Result<_, gimli::Error> {
        Ok(EndianSlice::new(
            match id {
                SectionId::DebugLine => debug_line,
                _ => &[],
            },
            LittleEndian,
        ))
    })
    .unwrap()
}

/// (address, line, end_sequence) of every row.
type Rows = Vec<(u64, u64, bool)>;

fn read_rows(debug_line: &[u8]) -> Rows {
    let dwarf = load(debug_line);
    let program = dwarf
        .debug_line
        .program(DebugLineOffset(0), 8, None, None)
        .expect("the reader should accept this line program header");
    let mut rows = program.rows();
    let mut out = Vec::new();
    while let Some((_, row)) = rows.next_row().expect("rows should parse") {
        out.push((
            row.address(),
            row.line().map(|l| l.get()).unwrap_or(0),
            row.end_sequence(),
        ));
    }
    out
}

/// Convert the program with `ConvertLineProgram::convert`, write it with
/// `write::LineProgram::write`, and return the new `.debug_line` section.
fn convert_and_write(debug_line: &[u8]) -> Vec<u8> {
    let read_dwarf = load(debug_line);
    let read_program = read_dwarf
        .debug_line
        .program(DebugLineOffset(0), 8, None, None)
        .unwrap();
    let mut write_dwarf = gimli::write::Dwarf::new();
    let convert = write_dwarf
        .read_line_program(&read_dwarf, read_program, None, None)
        .expect("header should convert");
    let (program, _files) = convert
        .convert(&|address| Some(gimli::write::Address::Constant(address)))
        .expect("program should convert");
    let mut out = gimli::write::DebugLine::from(gimli::write::EndianVec::new(LittleEndian));
    let offset = program
        .write(
            &mut out,
            program.encoding(),
            &mut write_dwarf.line_strings,
            &mut write_dwarf.strings,
        )
        .expect("program should be writable");
    assert_eq!(offset, DebugLineOffset(0));
    out.slice().to_vec()
}

fn fmt_rows(rows: &Rows) -> String {
    rows.iter()
        .map(|&(address, line, end)| {
            if end {
                format!("({:#x},end)", address)
            } else {
                format!("({:#x},{})", address, line)
            }
        })
        .collect::<Vec<_>>()
        .join(" ")
}

fn assert_round_trips(program: &[u8], expected: &Rows) {
    let original = debug_line_v4(program);
    let original_rows = read_rows(&original);
    // The reader itself handles the source program as expected.
    assert_eq!(&original_rows, expected, "rows of the source program");
    let converted = convert_and_write(&original);
    let converted_rows = read_rows(&converted);
    assert!(
        original_rows == converted_rows,
        "converted program does not reproduce the source rows\n  original:  {}\n  converted: {}",
        fmt_rows(&original_rows),
        fmt_rows(&converted_rows)
    );
}

/// Sanity check: the hand-assembled programs round-trip when the mid-sequence
/// set_address is absent, or happens while the internal address offset is still 0.
#[test]
fn benign_programs_round_trip() {
    assert_round_trips(
        &simple_program(),
        &vec![(0x1000, 1, false), (0x1004, 2, false), (0x1008, 2, true)],
    );
    assert_round_trips(
        &mid_sequence_program(0),
        &vec![
            (0x1000, 1, false),
            (0x1000, 2, false),
            (0x2000, 3, false),
            (0x2008, 4, false),
            (0x200c, 4, true),
        ],
    );
}

// Reproduces: converted rows are (0x1000,1) (0x1004,2) (0x2004,3) (0x2004,4) (0x2004,end)
#[test]
fn mid_sequence_set_address_round_trips() {
    assert_round_trips(
        &mid_sequence_program(4),
        &vec![
            (0x1000, 1, false),
            (0x1004, 2, false),
            (0x2000, 3, false),
            (0x2008, 4, false),
            (0x200c, 4, true),
        ],
    );
}

// Reproduces: offsets after SetAddress(0x2000) are 4, 4, EndSequence(4).
#[test]
fn mid_sequence_set_address_read_row_offsets() {
    let original = debug_line_v4(&mid_sequence_program(4));
    let read_dwarf = load(&original);
    let read_program = read_dwarf
        .debug_line
        .program(DebugLineOffset(0), 8, None, None)
        .unwrap();
    let mut write_dwarf = gimli::write::Dwarf::new();
    let mut convert = write_dwarf
        .read_line_program(&read_dwarf, read_program, None, None)
        .unwrap();
    let mut events = Vec::new();
    while let Some(row) = convert.read_row().expect("read_row should succeed") {
        events.push(match row {
            ConvertLineRow::SetAddress(address) => format!("SetAddress({:#x})", address),
            ConvertLineRow::Row(row) => format!("Row(+{},line {})", row.address_offset, row.line),
            ConvertLineRow::EndSequence(length) => format!("EndSequence(+{})", length),
        });
    }
    assert_eq!(
        events,
        [
            "SetAddress(0x1000)",
            "Row(+0,line 1)",
            "Row(+4,line 2)",
            "SetAddress(0x2000)",
            "Row(+0,line 3)",
            "Row(+8,line 4)",
            "EndSequence(+12)",
        ]
    );
}

// Reproduces: second chunk is start Some(0x2000), rows +4/+4, end Length(4).
#[test]
fn mid_sequence_set_address_read_sequence_offsets() {
    let original = debug_line_v4(&mid_sequence_program(4));
    let read_dwarf = load(&original);
    let read_program = read_dwarf
        .debug_line
        .program(DebugLineOffset(0), 8, None, None)
        .unwrap();
    let mut write_dwarf = gimli::write::Dwarf::new();
    let mut convert = write_dwarf
        .read_line_program(&read_dwarf, read_program, None, None)
        .unwrap();
    let mut chunks = Vec::new();
    while let Some(sequence) = convert
        .read_sequence()
        .expect("read_sequence should succeed")
    {
        let rows: Vec<String> = sequence
            .rows
            .iter()
            .map(|row| format!("+{},line {}", row.address_offset, row.line))
            .collect();
        let end = match sequence.end {
            ConvertLineSequenceEnd::Length(length) => format!("Length({})", length),
            ConvertLineSequenceEnd::Address(address) => format!("Address({:#x})", address),
        };
        chunks.push(format!(
            "start {:x?} rows [{}] end {}",
            sequence.start,
            rows.join("; "),
            end
        ));
    }
    assert_eq!(
        chunks,
        [
            "start Some(1000) rows [+0,line 1; +4,line 2] end Address(0x2000)",
            "start Some(2000) rows [+0,line 3; +8,line 4] end Length(12)",
        ]
    );
}

// Writer side of the same problem: feed `write::LineProgram` the offsets that
// `ConvertLineRow::SetAddress` documents ("all subsequent rows in the sequence
// will have their `address_offset` field set to an offset from this address").
#[test]
fn writer_accepts_offsets_relative_to_mid_sequence_set_address() {
    let result = std::panic::catch_unwind(|| {
        let encoding = gimli::Encoding {
            format: gimli::Format::Dwarf32,
            version: 4,
            address_size: 8,
        };
        let mut program = gimli::write::LineProgram::new(
            encoding,
            gimli::LineEncoding::default(),
            gimli::write::LineString::String(b"dir".to_vec()),
            None,
            gimli::write::LineString::String(b"file.c".to_vec()),
            None,
        );
        let dir = program.default_directory();
        let file = program.add_file(
            gimli::write::LineString::String(b"file.c".to_vec()),
            dir,
            None,
        );
        let emit = |program: &mut gimli::write::LineProgram, offset: u64, line: u64| {
            program.row().file = file;
            program.row().address_offset = offset;
            program.row().line = line;
            program.generate_row();
        };
        program.set_address(gimli::write::Address::Constant(0x1000));
        emit(&mut program, 0, 1);
        emit(&mut program, 4, 2);
        program.set_address(gimli::write::Address::Constant(0x2000));
        emit(&mut program, 0, 3);
        emit(&mut program, 8, 4);
        program.end_sequence(12);
        let mut out = gimli::write::DebugLine::from(gimli::write::EndianVec::new(LittleEndian));
        let mut line_strings = gimli::write::LineStringTable::default();
        let mut strings = gimli::write::StringTable::default();
        program
            .write(&mut out, encoding, &mut line_strings, &mut strings)
            .unwrap();
        read_rows(out.slice())
    });
    match result {
        Ok(rows) => assert_eq!(
            fmt_rows(&rows),
            "(0x1000,1) (0x1004,2) (0x2000,3) (0x2008,4) (0x200c,end)"
        ),
        Err(payload) => {
            let msg = payload
                .downcast_ref::<&str>()
                .map(|s| s.to_string())
                .or_else(|| payload.downcast_ref::<String>().cloned())
                .unwrap_or_default();
            panic!("write::LineProgram panicked: {}", msg);
        }
    }
}
