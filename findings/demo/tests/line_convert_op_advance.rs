// Finding: when a converted line program generates rows,
// `write::LineProgram::generate_row` / `op_advance` (src/write/line.rs) do
// unchecked u64 arithmetic on the address advance between two rows:
//
//   op_advance():    address_advance * maximum_operations_per_instruction + op_index - prev.op_index
//   generate_row():  special + op_advance * line_range
//
// A source program with a huge address advance between two rows (which the
// reader accepts) makes these overflow, which panics in a debug build (overflow
// checks on) instead of returning a `ConvertError`.
//
// STATUS: REPRODUCES against gimli 0.33.1, debug build.
//
//   REPRODUCES (tests fail):
//   - `op_advance_times_line_range_does_not_panic`: maximum_operations_per_instruction
//     = 1, DW_LNS_advance_pc 2^63 between two rows; `op_advance * line_range`
//     panics with "attempt to multiply with overflow" (line.rs:463).
//   - `address_advance_times_max_ops_does_not_panic`: maximum_operations_per_instruction
//     = 255, two DW_LNS_advance_pc u64::MAX between two rows;
//     `address_advance * maximum_operations_per_instruction` panics with
//     "attempt to multiply with overflow" (line.rs:505).
//
//   DOES NOT REPRODUCE (test passes):
//   - `set_address_mid_sequence_does_not_panic`: a DW_LNE_set_address in the middle
//     of a sequence does not make the address offset go backwards in the writer
//     (no debug_assert / subtraction overflow). The converter replaces the address
//     with 0, which the reader's `LineRow::execute` then treats as a tombstone
//     (0 < current address), so the offset simply stops advancing. (Side
//     observation, not asserted here: the row after the second set_address is
//     converted with offset 4 instead of 0, i.e. 0x2004 instead of 0x2000.)
//
// Public API path: read::DebugLine::program -> write::Dwarf::read_line_program
// -> ConvertLineProgram::convert (which calls ConvertLineProgram::generate_row
// -> LineProgram::generate_row). The same code runs for `write::Dwarf::from`.

use gimli::{DebugLineOffset, EndianSlice, LittleEndian, SectionId};
use std::panic::{catch_unwind, AssertUnwindSafe};

fn uleb(mut val: u64, out: &mut Vec<u8>) {
    loop {
        let byte = (val & 0x7f) as u8;
        val >>= 7;
        if val == 0 {
            out.push(byte);
            return;
        }
        out.push(byte | 0x80);
    }
}

fn with_length(body: &[u8]) -> Vec<u8> {
    let mut out = Vec::new();
    out.extend_from_slice(&(body.len() as u32).to_le_bytes());
    out.extend_from_slice(body);
    out
}

/// A DWARF 4 `.debug_line` section (minimum_instruction_length 1, line_base -5,
/// line_range 14, opcode_base 13) with one directory and one file, followed by
/// `program`.
fn debug_line_v4(maximum_operations_per_instruction: u8, program: &[u8]) -> Vec<u8> {
    let mut h = Vec::new();
    h.push(1); // minimum_instruction_length
    h.push(maximum_operations_per_instruction);
    h.push(1); // default_is_stmt
    h.push(-5i8 as u8); // line_base
    h.push(14); // line_range
    h.push(13); // opcode_base
    h.extend_from_slice(&[0, 1, 1, 1, 1, 0, 0, 0, 1, 0, 0, 1]); // standard_opcode_lengths
    h.extend_from_slice(b"dir\0");
    h.push(0); // end of include_directories
    h.extend_from_slice(b"file.c\0");
    h.extend_from_slice(&[1, 0, 0]); // directory index, mtime, length
    h.push(0); // end of file_names

    let mut body = Vec::new();
    body.extend_from_slice(&4u16.to_le_bytes()); // version
    body.extend_from_slice(&with_length(&h)); // header_length + header
    body.extend_from_slice(program);
    with_length(&body)
}

const DW_LNS_COPY: u8 = 0x01;
const DW_LNS_ADVANCE_PC: u8 = 0x02;

fn set_address(address: u64, out: &mut Vec<u8>) {
    out.extend_from_slice(&[0x00, 9, 0x02]); // DW_LNE_set_address
    out.extend_from_slice(&address.to_le_bytes());
}

fn advance_pc(advance: u64, out: &mut Vec<u8>) {
    out.push(DW_LNS_ADVANCE_PC);
    uleb(advance, out);
}

fn end_sequence(out: &mut Vec<u8>) {
    out.extend_from_slice(&[0x00, 1, 0x01]); // DW_LNE_end_sequence
}

/// Convert the line program at offset 0 of `debug_line`.
///
/// Returns the conversion result, and panics with a descriptive message if the
/// conversion panicked.
fn convert(debug_line: &[u8]) -> Result<(), String> {
    let result = catch_unwind(AssertUnwindSafe(|| -> Result<(), String> {
        let read_dwarf = gimli::read::Dwarf::load(|id| -> Result<_, gimli::Error> {
            Ok(EndianSlice::new(
                match id {
                    SectionId::DebugLine => debug_line,
                    _ => &[],
                },
                LittleEndian,
            ))
        })
        .map_err(|e| e.to_string())?;
        let read_program = read_dwarf
            .debug_line
            .program(DebugLineOffset(0), 8, None, None)
            .expect("the reader should accept this line program header");

        // The reader itself accepts the whole program without error.
        let mut rows = read_program.clone().rows();
        let mut count = 0;
        while let Some(_) = rows.next_row().expect("the reader should accept all rows") {
            count += 1;
        }
        assert!(count >= 3, "expected at least 3 rows, got {}", count);

        let mut write_dwarf = gimli::write::Dwarf::new();
        let convert = write_dwarf
            .read_line_program(&read_dwarf, read_program, None, None)
            .map_err(|e| format!("{:?}", e))?;
        convert
            .convert(&|address| Some(gimli::write::Address::Constant(address)))
            .map_err(|e| format!("{:?}", e))?;
        Ok(())
    }));
    match result {
        Ok(result) => result,
        Err(payload) => {
            let msg = payload
                .downcast_ref::<&str>()
                .map(|s| s.to_string())
                .or_else(|| payload.downcast_ref::<String>().cloned())
                .unwrap_or_default();
            panic!("line program conversion panicked: {}", msg);
        }
    }
}

/// Sanity check that the hand-assembled section is well formed.
#[test]
fn benign_program_converts() {
    for max_ops in [1, 255] {
        let mut program = Vec::new();
        set_address(0x1000, &mut program);
        program.push(DW_LNS_COPY);
        advance_pc(1000, &mut program);
        program.push(DW_LNS_COPY);
        advance_pc(4, &mut program);
        end_sequence(&mut program);
        convert(&debug_line_v4(max_ops, &program)).expect("benign program should convert");
    }
}

// Reproduces: `special + op_advance * line_range` in generate_row overflows
// ("attempt to multiply with overflow").
#[test]
fn op_advance_times_line_range_does_not_panic() {
    let mut program = Vec::new();
    program.push(DW_LNS_COPY); // row at address offset 0
    advance_pc(1 << 63, &mut program);
    program.push(DW_LNS_COPY); // row at address offset 2^63
    end_sequence(&mut program);
    let result = convert(&debug_line_v4(1, &program));
    println!("conversion returned {:?}", result);
}

// Reproduces: `address_advance * maximum_operations_per_instruction` in
// op_advance overflows ("attempt to multiply with overflow").
#[test]
fn address_advance_times_max_ops_does_not_panic() {
    let mut program = Vec::new();
    program.push(DW_LNS_COPY); // row at address offset 0
    // With maximum_operations_per_instruction = 255, an operation advance of
    // u64::MAX = 255 * 0x0101_0101_0101_0101 advances the address by
    // 0x0101_0101_0101_0101 and leaves op_index at 0. Two of them give an
    // address advance of 0x0202_0202_0202_0202, and that times 255 overflows.
    advance_pc(u64::MAX, &mut program);
    advance_pc(u64::MAX, &mut program);
    program.push(DW_LNS_COPY);
    end_sequence(&mut program);
    let result = convert(&debug_line_v4(255, &program));
    println!("conversion returned {:?}", result);
}

// Does not reproduce: no panic (see the note at the top of the file).
#[test]
fn set_address_mid_sequence_does_not_panic() {
    let mut program = Vec::new();
    set_address(0x1000, &mut program);
    program.push(DW_LNS_COPY); // offset 0 from 0x1000
    advance_pc(4, &mut program);
    program.push(DW_LNS_COPY); // offset 4 from 0x1000
    set_address(0x2000, &mut program);
    program.push(DW_LNS_COPY); // offset 0 from 0x2000
    advance_pc(4, &mut program);
    end_sequence(&mut program);
    let result = convert(&debug_line_v4(1, &program));
    println!("conversion returned {:?}", result);
}
