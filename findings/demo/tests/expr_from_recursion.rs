// Finding: read -> write conversion of a location expression recurses once per
// nesting level of DW_OP_entry_value (`write::Expression::from` in
// src/write/op.rs `mod convert`), with no depth limit. A small input
// (~80 KiB of .debug_info) overflows the stack and aborts the process.
//
// STATUS: REPRODUCES (test fails against gimli 0.33.1: the child process dies
// with SIGABRT "thread ... has overflowed its stack").
//
// `write::Expression::from` itself is `pub(crate)`; the public paths that reach
// it are `write::Dwarf::from` (used here), `ConvertUnit::convert`,
// `ConvertUnit::convert_attribute_value` and `ConvertUnit::convert_expression`.
//
// A stack overflow cannot be caught in-process, so the test re-runs its own
// test binary as a child process (running the `#[ignore]`d test
// `child_convert_nested_entry_value`) and asserts that the child exits
// successfully. The child does the conversion on a thread with a 1 MiB stack
// and accepts either `Ok` or `Err` from the conversion.

use gimli::{EndianSlice, LittleEndian, SectionId};

const DEPTH: usize = 20_000;
const STACK_SIZE: usize = 1024 * 1024;

fn uleb(mut val: u64, out: &mut Vec<u8>) {
    loop {
        let byte = (val & 0x7f) as u8;
        val >>= 7;
        if val == 0 {
            out.push(byte);
            return;
        }
        out.push(byte | 0x80);
    }
}

/// DW_OP_entry_value(DW_OP_entry_value(... DW_OP_reg0 ...)) nested `depth` times.
fn nested_entry_value(depth: usize) -> Vec<u8> {
    // Build inside out. Each step prepends, so build reversed chunks.
    let mut expr = vec![0x50u8]; // DW_OP_reg0
    for _ in 0..depth {
        let mut outer = Vec::with_capacity(expr.len() + 6);
        outer.push(0xa3); // DW_OP_entry_value
        uleb(expr.len() as u64, &mut outer);
        outer.extend_from_slice(&expr);
        expr = outer;
    }
    expr
}

fn debug_abbrev() -> Vec<u8> {
    vec![
        // code 1: DW_TAG_compile_unit, has children, DW_AT_name DW_FORM_string
        0x01, 0x11, 0x01, 0x03, 0x08, 0x00, 0x00,
        // code 2: DW_TAG_variable, no children, DW_AT_location DW_FORM_exprloc
        0x02, 0x34, 0x00, 0x02, 0x18, 0x00, 0x00, //
        0x00,
    ]
}

fn debug_info(expr: &[u8]) -> Vec<u8> {
    let mut body = Vec::new();
    body.extend_from_slice(&4u16.to_le_bytes()); // version
    body.extend_from_slice(&0u32.to_le_bytes()); // debug_abbrev_offset
    body.push(8); // address_size
    body.extend_from_slice(&[0x01, b'a', 0x00]); // root DIE
    body.push(0x02); // DW_TAG_variable
    uleb(expr.len() as u64, &mut body);
    body.extend_from_slice(expr);
    body.push(0x00); // end of children
    let mut section = Vec::new();
    section.extend_from_slice(&(body.len() as u32).to_le_bytes());
    section.extend_from_slice(&body);
    section
}

fn convert(depth: usize) -> Result<usize, gimli::write::ConvertError> {
    let abbrev = debug_abbrev();
    let info = debug_info(&nested_entry_value(depth));
    let read_dwarf = gimli::read::Dwarf::load(|id| -> Result<_, gimli::Error> {
        Ok(EndianSlice::new(
            match id {
                SectionId::DebugInfo => &info[..],
                SectionId::DebugAbbrev => &abbrev[..],
                _ => &[],
            },
            LittleEndian,
        ))
    })?;
    let write_dwarf = gimli::write::Dwarf::from(&read_dwarf, &|address| {
        Some(gimli::write::Address::Constant(address))
    })?;
    let count = write_dwarf.units.count();
    // Dropping the deeply nested `write::Expression` is recursive as well; that is
    // not what this test is about, so leak it.
    std::mem::forget(write_dwarf);
    Ok(count)
}

/// Sanity check that the input is well formed: a shallow nesting converts fine.
#[test]
fn shallow_nesting_converts() {
    assert_eq!(convert(8).expect("shallow nesting should convert"), 1);
}

/// Run by `deep_nesting_does_not_overflow_stack` in a child process.
#[test]
#[ignore = "helper: run in a child process by deep_nesting_does_not_overflow_stack"]
fn child_convert_nested_entry_value() {
    let result = std::thread::Builder::new()
        .stack_size(STACK_SIZE)
        .spawn(|| convert(DEPTH).map_err(|e| e.to_string()))
        .unwrap()
        .join()
        .expect("conversion thread panicked");
    // Either outcome is acceptable; only crashing is not.
    println!("conversion returned {:?}", result);
}

#[test]
fn deep_nesting_does_not_overflow_stack() {
    let exe = std::env::current_exe().unwrap();
    let output = std::process::Command::new(exe)
        .args([
            "--exact",
            "child_convert_nested_entry_value",
            "--ignored",
            "--nocapture",
            "--test-threads=1",
        ])
        .output()
        .expect("failed to run child process");
    assert!(
        output.status.success(),
        "converting an expression with {} nested DW_OP_entry_value crashed the child process \
         ({:?}) on a {} byte stack\n--- child stderr ---\n{}",
        DEPTH,
        output.status,
        STACK_SIZE,
        String::from_utf8_lossy(&output.stderr)
    );
}
