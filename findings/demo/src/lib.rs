// Intentionally empty: this crate only hosts the integration tests under tests/.
