#!/bin/bash
# usage: tools/try_seed.sh <patch.diff> <PROP> [PROP...]   -- applies the patch to /repo, runs the checks, reverts
set -u
patch="$1"; shift
cd /repo || exit 9
if ! git diff --quiet; then echo "/repo dirty"; exit 9; fi
if ! git apply --check "$patch" 2>/dev/null; then echo "patch does not apply"; exit 8; fi
git apply "$patch"
trap 'git -C /repo checkout -- . ; git -C /repo clean -fdq src' EXIT
cd /verif
for p in "$@"; do
  out=$(./check "$p" --tier quick 2>&1)
  rc=$?
  echo "== $p rc=$rc"
  echo "$out" | grep -v "^VIOLATION\|^KNOWN-FINDING\|WARNING conda" | head -${SEED_LINES:-8} | cut -c1-400
done
