#!/bin/bash
# usage: [SEED_REPO=<checkout>] tools/try_seed.sh <patch.diff> <PROP> [PROP...]  -- applies the patch, runs the named checks, reverts
set -u
patch="$1"; shift
REPO="${SEED_REPO:-/repo}"
V="$(cd "$(dirname "$0")/.." && pwd)"
cd "$REPO" || exit 9
if ! git diff --quiet; then echo "$REPO dirty"; exit 9; fi
if ! git apply --check "$patch" 2>/dev/null; then echo "patch does not apply"; exit 8; fi
git apply "$patch"
trap 'git -C "$REPO" checkout -- . ; git -C "$REPO" clean -fdq src' EXIT
cd "$V"
export VERIF_REPO="$REPO"
for p in "$@"; do
  out=$(./check "$p" --tier quick --repo "$REPO" 2>&1)
  rc=$?
  echo "== $p rc=$rc"
  echo "$out" | grep -v "^VIOLATION\|^KNOWN-FINDING\|WARNING conda" | head -${SEED_LINES:-8} | cut -c1-400
done
