#!/usr/bin/env python3
"""Maintainer tool: tools/annotate_requires.py <facts dir>  -- for every `requires` guard of tables/reviewed_sites.json record the
name-free form of the comparison(s) it names on the pinned tree (cmp_nf) and how many comparisons of that form the function has
(count), so that renaming a local in the validating function does not detach the guard."""
import json, os, sys
sys.path.insert(0, os.path.dirname(os.path.dirname(os.path.abspath(__file__))))
from rules.facts import Facts
from rules.props.c01 import _comparisons, _named_match
V = os.path.dirname(os.path.dirname(os.path.abspath(__file__)))
g = Facts(os.path.join(sys.argv[1], 'gimli.facts.json'))
p = os.path.join(V, 'tables', 'reviewed_sites.json')
t = json.load(open(p))
n = 0
cache = {}
for e in t['sites']:
    for rq in e.get('requires', []):
        fn = g.fns.get(rq['fn'])
        if fn is None:
            continue
        cmps = cache.setdefault(rq['fn'], _comparisons(g, fn))
        hits = _named_match(cmps, rq['cmp'][0], rq['cmp'][1])
        if not hits:
            print('NO MATCH on the pinned tree:', e['key'][:80], rq)
            continue
        nfs = sorted({h[2] for h in hits})
        rq['cmp_nf'] = nfs
        rq['count'] = sum(1 for c in cmps if c[2] in nfs)
        n += 1
json.dump(t, open(p, 'w'), indent=1)
print('annotated', n, 'guards')
