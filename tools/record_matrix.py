#!/usr/bin/env python3
"""Maintainer tool: tools/record_matrix.py <matrix log> [<output file under seeded/, default MATRIX.md>]  -> updates seeded/*/meta.json (caught_by), seeded/MATRIX.md"""
import json, os, re, sys
V = os.path.dirname(os.path.dirname(os.path.abspath(__file__)))
log = open(sys.argv[1]).read()
res = {}
cur = None
details = {}
for line in log.split('\n'):
    m = re.match(r'^#### (\S+)', line)
    if m:
        cur = m.group(1).replace('/', '-')
        details[cur] = []
        continue
    if cur and line.startswith('CAUGHT BY:'):
        props = re.findall(r'(C\d+)\(rc=(\d)\)', line)
        res[cur] = {'violation': [p for p, rc in props if rc == '1'], 'cannot_decide': [p for p, rc in props if rc == '2']}
        cur_done = cur
        continue
    if cur and line.strip().startswith('['):
        details[cur].append(line.strip()[:300])
rows = []
for name in sorted(os.listdir(os.path.join(V, 'seeded'))):
    mp = os.path.join(V, 'seeded', name, 'meta.json')
    if not os.path.exists(mp):
        continue
    meta = json.load(open(mp))
    r = res.get(name)
    if r is None:
        continue
    meta['caught_by'] = r['violation']
    meta['cannot_decide_in'] = r['cannot_decide']
    meta['first_reports'] = [d for d in details.get(name, []) if not d.startswith('[C19] src/write/unit.rs:1952: X-edges')][:3]
    json.dump(meta, open(mp, 'w'), indent=1)
    rows.append((name, meta['property'], r['violation'], r['cannot_decide'], meta['first_reports'][:1]))
OUT = sys.argv[2] if len(sys.argv) > 2 else 'MATRIX.md'
with open(os.path.join(V, 'seeded', OUT), 'w') as f:
    f.write('# Seeded regressions x checks\n\nEach seed was applied alone to a snapshot of /repo and all twenty quick checks were run (tools/run_matrix.sh).\n'
            '"caught" = exit 1 with a VIOLATION line; "cannot decide" = exit 2 (an anchor disappeared / a floor was missed).\n\n')
    f.write('| seed | property | caught by (VIOLATION) | cannot-decide | first report |\n|---|---|---|---|---|\n')
    for name, prop, v, c, d in rows:
        f.write('| %s | %s | %s | %s | %s |\n' % (name, prop, ', '.join(v) or '**missed**', ', '.join(c) or '', (d[0] if d else '').replace('|', '\\|')[:200]))
    own = sum(1 for name, prop, v, c, d in rows if prop in v)
    anyc = sum(1 for name, prop, v, c, d in rows if v)
    f.write('\n%d seeds; %d caught by the check of their own property; %d caught by at least one check; %d missed by every check.\n' % (len(rows), own, anyc, len(rows) - anyc))
print(open(os.path.join(V, 'seeded', OUT)).read()[-300:])
