#!/bin/bash
# usage: tools/confirm_seed.sh <seed dir containing patch.diff + demo.rs> <scratch worktree of /repo>
# Confirms: (1) patched tree builds, (2) existing suite passes with the patch, (3) demo fails with the patch,
# (4) demo passes without it.  Prints one JSON line.
sd="$1"; wt="$2"
cd "$wt" || exit 9
git checkout -q -- . ; git clean -fdq tests src
export CARGO_NET_OFFLINE=true
res_build=0; res_suite=0; res_demo_patched=0; res_demo_clean=0
if ! git apply "$sd/patch.diff" 2>/dev/null; then echo "{\"seed\":\"$sd\",\"error\":\"patch does not apply\"}"; exit 0; fi
cargo build --offline >/dev/null 2>&1 || res_build=1
suite_out=$(cargo test --workspace --offline 2>&1); res_suite=$?
fails=$(echo "$suite_out" | grep -c "^test .* FAILED")
cp "$sd/demo.rs" tests/seed_demo.rs
cargo test --offline --test seed_demo >/tmp/confirm_demo_patched.log 2>&1; res_demo_patched=$?
git checkout -q -- src
cargo test --offline --test seed_demo >/tmp/confirm_demo_clean.log 2>&1; res_demo_clean=$?
rm -f tests/seed_demo.rs
git checkout -q -- . ; git clean -fdq tests src
echo "{\"seed\":\"$sd\",\"build_rc\":$res_build,\"suite_rc\":$res_suite,\"suite_failed_tests\":$fails,\"demo_with_patch_rc\":$res_demo_patched,\"demo_clean_rc\":$res_demo_clean}"
