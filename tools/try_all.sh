#!/bin/bash
# usage: [SEED_REPO=<git checkout of gimli>] tools/try_all.sh <patch.diff>
# Applies the patch to the checkout (default /repo), runs EVERY property's quick check against it
# (one shared fact extraction), reverts the patch.  Maintainer tool, not a registered check.
set -u
patch="$1"
REPO="${SEED_REPO:-/repo}"
V="$(cd "$(dirname "$0")/.." && pwd)"
cd "$REPO" || exit 9
if ! git diff --quiet; then echo "$REPO dirty"; exit 9; fi
if ! git apply --check "$patch" 2>/dev/null; then echo "patch does not apply"; exit 8; fi
git apply "$patch"
trap 'git -C "$REPO" checkout -- . ; git -C "$REPO" clean -fdq src' EXIT
cd "$V"
F=$(mktemp -d /tmp/seedfacts.XXXX)
export VERIF_REPO="$REPO"
python3 - "$F" <<'PY'
import sys, shutil, os
sys.path.insert(0, os.getcwd())
from rules import core
ex = core.Extraction(os.environ['VERIF_REPO'])
try:
    g, fx = ex.main()
    shutil.copy(os.path.join(ex.tmp, 'out-main', 'gimli.facts.json'), sys.argv[1])
    shutil.copy(os.path.join(ex.tmp, 'out-main', 'verif_fixture.facts.json'), sys.argv[1])
except core.CannotDecide as e:
    print('EXTRACTION FAILED', e)
    sys.exit(3)
finally:
    ex.close()
PY
if [ $? -ne 0 ]; then rm -rf "$F"; exit 3; fi
caught=""
for i in $(seq -w 1 20); do
  p=C$i
  out=$(VERIF_WITNESS_REPO="$REPO" ./check $p --facts "$F" --repo "$REPO" 2>&1)
  rc=$?
  if [ $rc -ne 0 ]; then
    caught="$caught $p(rc=$rc)"
    echo "$out" | grep -v "^VIOLATION\|^KNOWN-FINDING\|WARNING conda" | head -${SEED_LINES:-2} | cut -c1-330 | sed "s/^/   [$p] /"
  fi
done
rm -rf "$F"
echo "CAUGHT BY:$caught"
