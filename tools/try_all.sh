#!/bin/bash
# usage: tools/try_all.sh <patch.diff>  -- applies the patch, runs EVERY property's quick check once (shared extraction), reverts.
set -u
patch="$1"
cd /repo || exit 9
if ! git diff --quiet; then echo "/repo dirty"; exit 9; fi
if ! git apply --check "$patch" 2>/dev/null; then echo "patch does not apply"; exit 8; fi
git apply "$patch"
trap 'git -C /repo checkout -- . ; git -C /repo clean -fdq src' EXIT
cd /verif
python3 - <<'PY'
import sys, shutil, os, subprocess
sys.path.insert(0, '/verif')
from rules import core
ex = core.Extraction('/repo')
try:
    g, fx = ex.main()
    os.makedirs('/tmp/seedfacts', exist_ok=True)
    shutil.copy(os.path.join(ex.tmp, 'out-main', 'gimli.facts.json'), '/tmp/seedfacts/')
    shutil.copy(os.path.join(ex.tmp, 'out-main', 'verif_fixture.facts.json'), '/tmp/seedfacts/')
except core.CannotDecide as e:
    print('EXTRACTION FAILED', e)
    sys.exit(3)
finally:
    ex.close()
PY
[ $? -ne 0 ] && exit 3
caught=""
for i in $(seq -w 1 20); do
  p=C$i
  if [ "$p" = "C10" ] || [ "$p" = "C20" ]; then out=$(./check $p 2>&1); else out=$(./check $p --facts /tmp/seedfacts 2>&1); fi
  rc=$?
  if [ $rc -ne 0 ]; then
    caught="$caught $p(rc=$rc)"
    echo "$out" | grep -v "^VIOLATION\|^KNOWN-FINDING\|WARNING conda" | head -${SEED_LINES:-2} | cut -c1-330 | sed "s/^/   [$p] /"
  fi
done
echo "CAUGHT BY:$caught"
