#!/bin/bash
# maintainer tool: regenerate tables/reviewed_sites.json and known_findings.json from table-free dumps of every
# property that uses them.  usage: tools/retriage.sh <facts dir>
cd "$(dirname "$0")/.."
F=${1:-/tmp/gfacts}
for p in C01 C08 C09 C10 C11 C13 C14 C15 C16 C18 C19; do VERIF_NO_TABLES=1 VERIF_DUMP_OPEN=/tmp/open-$p.json ./check $p --facts $F >/dev/null 2>&1; done
cp known_findings.json /tmp/kf.bak 2>/dev/null
python3 - <<'PY'
import json,os
p='/verif/known_findings.json'
fixed=json.load(open(p)).get('fixed',[]) if os.path.exists(p) else []
json.dump({'findings':[], 'fixed':fixed}, open(p,'w'), indent=1)
PY
rm -f tables/reviewed_sites.json
python3 tools/triage.py /tmp/open-C*.json
python3 tools/annotate_requires.py $F
