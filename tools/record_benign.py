#!/usr/bin/env python3
"""Maintainer tool: tools/record_benign.py <matrix log>  -> benign/MATRIX.md (which checks raise an alarm on behaviour-preserving patches)"""
import os, re, sys
V = os.path.dirname(os.path.dirname(os.path.abspath(__file__)))
log = open(sys.argv[1]).read()
secs = re.split(r'^#### ', log, flags=re.M)[1:]
rows = []
for s in secs:
    name = s.split('\n', 1)[0].strip()
    if not re.match(r'^R\d+-[ABC]\d$', name):
        continue
    m = re.search(r'^CAUGHT BY:(.*)$', s, flags=re.M)
    props = re.findall(r'(C\d+)\(rc=(\d)\)', m.group(1)) if m else []
    first = ''
    for l in s.split('\n')[1:]:
        l = l.strip()
        if l.startswith('[') and 'obligations' not in l:
            first = l[:260].replace('|', '\\|')
            break
    rows.append((name, [p for p, rc in props if rc == '1'], [p for p, rc in props if rc == '2'], first))
kinds = {'A': 'cosmetic (renames, comments, use order)', 'B': 'local restructuring', 'C': 'equivalent rewrite (helpers, iterator chains)'}
with open(os.path.join(V, 'benign', 'MATRIX.md'), 'w') as f:
    f.write('# Behaviour-preserving patches x checks\n\nEach patch keeps the whole test suite green and is argued (README.md next to it) to leave behaviour unchanged for every input.\n'
            'An entry in the VIOLATION / CANNOT-DECIDE columns is therefore a *false alarm* of that check on that patch.\n\n')
    for k in 'ABC':
        r = [x for x in rows if x[0].split('-')[1][0] == k]
        quiet = sum(1 for x in r if not x[1] and not x[2])
        f.write('* kind %s — %s: %d of %d quiet\n' % (k, kinds[k], quiet, len(r)))
    f.write('\n| patch | VIOLATION in | CANNOT-DECIDE in | first report |\n|---|---|---|---|\n')
    for name, v, c, first in rows:
        f.write('| %s | %s | %s | %s |\n' % (name, ', '.join(v), ', '.join(c), first))
print(len(rows), 'patches;', sum(1 for x in rows if not x[1] and not x[2]), 'quiet')
