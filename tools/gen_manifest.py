#!/usr/bin/env python3
import json, os, sys
sys.path.insert(0, os.path.dirname(os.path.dirname(os.path.abspath(__file__))))
from rules.registry import CLAIMED, NOT_APPLICABLE
V = os.path.dirname(os.path.dirname(os.path.abspath(__file__)))
props = [json.loads(l)['id'] for l in open(os.path.join(V, 'properties.jsonl'))]
checks = []
na = []
for pid in props:
    c = CLAIMED.get(pid)
    if c:
        checks.append({
            'property_id': pid,
            'quick_cmd': './check %s --tier quick' % pid,
            'thorough_cmd': './check %s --tier thorough' % pid,
            'evidence_file': 'evidence/%s.json' % pid,
            'replay_cmd_template': './check %s --replay {path}' % pid,
            'engine': 'gimli-facts',
            'level_claimed': {'category': 'other', 'text': c['text'], 'design_ref': c['design_ref']},
            'level_note': c['note'],
            'technique': c['technique'],
        })
    else:
        na.append({'property_id': pid, 'reason': NOT_APPLICABLE.get(pid, 'no sound static rule built yet for a necessary structural clause of this property; see DESIGN.md §6')})
m = {
    'version': 1,
    'setup_cmd': 'cd engine && CARGO_NET_OFFLINE=true cargo +nightly build --release --offline',
    'hooks': {
        'guard': 'gimli_verif',
        'enable': 'none needed: the analysis reads the MIR of the unmodified sources (RUSTC_WRAPPER=engine/target/release/gimli-facts cargo +nightly check)',
        'baseline_off_cmd': 'cd /repo && cargo test --workspace --no-fail-fast --offline',
        'source_commits': [],
        'add_only': True,
    },
    'engines': [
        {'name': 'gimli-facts', 'path': 'engine/', 'serves_properties': [c['property_id'] for c in checks],
         'kind_free_text': 'rustc_private driver (nightly) dumping type-checked MIR, ADTs, impls, constants of /repo as JSON; '
                           'python3 rule library under rules/ decides each property from those facts'},
    ],
    'checks': checks,
    'not_applicable': na,
    'notes': 'All checks are static analyses of /repo\'s current working tree (no gimli code is executed). '
             'Exit 0 = every obligation discharged/reviewed/known; exit 1 + VIOLATION line = a named construct violates a '
             'structural clause; exit 2 + CANNOT-DECIDE = anchor missing / count below floor / tree does not compile. '
             'Genuine defects repaired in /repo are listed in known_findings.json under "fixed".',
}
json.dump(m, open(os.path.join(V, 'MANIFEST.json'), 'w'), indent=1)
print('claimed', len(checks), 'not_applicable', len(na))
