#!/usr/bin/env python3
"""Maintainer tool: tools/gen_functions.py <facts dir>  -> tables/functions.json (every function of the pinned tree with its signature;
used by rules/facts.py to recognise a private function that was merely renamed)"""
import json, os, sys
sys.path.insert(0, os.path.dirname(os.path.dirname(os.path.abspath(__file__))))
from rules.facts import fn_signature
V = os.path.dirname(os.path.dirname(os.path.abspath(__file__)))
raw = json.load(open(os.path.join(sys.argv[1], 'gimli.facts.json')))
out = {}
for fr in raw['fns']:
    if fr['kind'] == 'Closure':
        continue
    out[fr['path']] = {'sig': fn_signature(fr, raw['strs']), 'kind': fr['kind']}
json.dump({'generated_from': 'pinned tree (see git log of /repo)', 'functions': out}, open(os.path.join(V, 'tables', 'functions.json'), 'w'), indent=0, sort_keys=True)
print(len(out), 'functions')
