#!/usr/bin/env python3
"""Maintainer tool (NOT run by any check): turns the reviewer's pattern rules below into the
exact-key tables  tables/reviewed_sites.json  and the 'findings' part of known_findings.json.

    VERIF_DUMP_OPEN=/tmp/open.json ./check C01 ...   # list of undischarged obligations
    tools/triage.py /tmp/open.json [more dumps]      # regenerate tables, print what is unmatched

The tables hold exact keys; the regexes here only record how the reviewer grouped the sites
when reading them.  A key that appears later and is not in the tables is a violation even if
one of these patterns would match it."""
import json
import os
import re
import sys

V = os.path.dirname(os.path.dirname(os.path.abspath(__file__)))

# (rule, regex on key, class, reason, requires)
R = []


def rv(rule, pat, cls, reason, requires=None):
    R.append((rule, re.compile(pat), cls, reason, requires or []))


# known findings: (rule, regex, properties, what)
K = []


def kf(rule, pat, props, what, demo=None):
    K.append((rule, re.compile(pat), props, what, demo))


CONTRACT = 'documented caller contract, not reachable from section bytes: '
INV = 'structural invariant the interval analysis cannot see: '

# ---- T1 -----------------------------------------------------------------------------------
rv('T1', r'RangeIter::<R>::next\|ok\|', 'invariant',
   INV + 'the Single variant yields through Option::take, so a second call returns None; the List variant delegates to RngListIter::next')
rv('T1', r'NameBucketIter::<R>::next\|err\|\?read_u32', 'invariant',
   INV + 'the read cannot fail: NameIndex::new splits exactly name_count*4 bytes for the hash array (bucket_count != 0 because NameBucketIter::new read a bucket), '
   'new() positions the reader at name_table_index*4 and next() reads only while name_table_index < name_count')
rv('T1', r'EntriesRaw::<\'abbrev, R>::read_(abbreviation|entry)\|err\|', 'contract',
   CONTRACT + 'EntriesRaw is the raw API whose rustdoc makes the caller test is_empty() before each read and says "Returns Err if end of input is reached"; '
   'every consuming in-crate caller is itself an instance of this rule')
rv('T1', r'ConvertLineProgram::<\'a, R>::read_row\|', 'invariant',
   INV + 'three-state machine: the SetAddress and ConvertRow states are left by a store to self.state before every return, and the ReadRow state '
   'returns only after LineInstructions::next_instruction consumed input or reported the end')
rv('T1', r'ConvertLineProgram::<\'a, R>::read_sequence\|', 'invariant',
   INV + 'every return is preceded by a call of read_row (reviewed above) or by the state store of the first match arm; the trailing '
   'MissingLineEndSequence error is returned after read_row reported the end of input')
rv('T1', r'ConvertUnitSection::<\'a, R>::read_unit\|', 'invariant',
   INV + 'self.read_unit_index is incremented before any fallible step and iteration stops when it reaches read_units.len()')

rv('T1', r"(ConvertUnit|FilterUnit)::<'a, R>::read_entry\|err\|\?read_entry", 'invariant',
   INV + 'reached only after `is_empty()` returned false, and EntriesRaw::read_entry starts with read_uleb128, which consumes at least one byte of a non-empty reader even when it '
   'fails (confirmed by findings/demo/tests/convert_read_entry_spins.rs: the error-skipping loop ends for all 65536 truncations tried)')
rv('T4', r'^write::unit::Unit::add_reserved\|loop', 'invariant', 'counter loop: entries.len() grows by one push per iteration until it reaches self.reserved (an in-memory count)')
rv('T4', r"^write::unit::convert::ConvertUnitSection::<'a, R>::new_with_filter\|loop#2", 'invariant', 'index loop: `end` increases by one per iteration and the loop ends when offsets.get(end) is None')
rv('R1', r'^read::unit::parse_attribute\|DebugInfoOffset#[23]$', 'contract',
   'DW_FORM_ref_sup4 / DW_FORM_ref_sup8 refer to the supplementary object file: the value is an offset in ANOTHER file\'s .debug_info and must not be relocated against this one')
# ---- T3 -----------------------------------------------------------------------------------
rv('T3', r'^read::dwarf::Dwarf::<T>::borrow <-> ', 'invariant',
   INV + 'recursion follows the `sup` chain of Arc<Dwarf> objects that the caller linked with set_sup; its depth is the number of files, not input bytes')
rv('T3', r'^read::dwarf::Dwarf::<R>::lookup_offset_id', 'invariant',
   INV + 'recursion follows the caller-built `sup` chain (see Dwarf::borrow)')

# ---- P: contracts -------------------------------------------------------------------------
rv('P', r'EndianReader<Endian, T> as core::ops::Index', 'contract', CONTRACT + 'Index impls panic on an out-of-range index like slices do; the index is the caller\'s')
rv('P', r'EndianSlice::<\'input, Endian>::range(_from|_to)? \| index', 'contract', CONTRACT + 'rustdoc: "Panics if the range is out of bounds"')
rv('P', r'(EndianReader<Endian, T> as read::reader::Reader>|EndianSlice::<\'input, Endian>)::offset_from \|', 'contract',
   CONTRACT + 'Reader::offset_from requires `base` to contain `self` (debug_assert documents it); address + length of a live slice cannot wrap')
rv('P', r'::lookup_offset_id \| Overflow\(Add\) \| self_id Add self_len', 'invariant', INV + 'address of a live allocation plus its length does not exceed the address space')
rv('P', r'^endianity::Endianity::(read|write)_(u16|u32|u64|u128) \|', 'contract',
   CONTRACT + 'rustdoc: "Panics when buf.len() < N"; the in-crate callers (Reader::read_uN) pass the [u8; N] array they just filled')
rv('P', r'^endianity::Endianity::read_uint \|', 'contract', CONTRACT + 'rustdoc: "Panics when buf.len() < 1 or buf.len() > 8"; Reader::read_uint slices its 8-byte buffer with the caller\'s n')
rv('P', r'^read::reader::Reader::read_uint \| index', 'contract', CONTRACT + 'rustdoc: n must be at most 8 (the argument is the caller\'s, in-crate callers pass constants 3 or an address size)')
rv('P', r'^read::op::Evaluation::<R(, S)?>::(resume_with_\w+|result|as_result|value_result|evaluate|set_initial_value) \| panic\(panic\)', 'contract',
   CONTRACT + 'rustdoc "Panics": calling resume_with_X when the evaluation did not return RequiresX, result() before completion, evaluate() after an error, set_initial_value after starting')
rv('P', r'^read::unit::UnitHeader::<R, Offset>::range(_from|_to)? \|', 'contract', CONTRACT + 'rustdoc: "Panics if the range is out of bounds" (the UnitOffset range is the caller\'s)')
rv('P', r'to_unit_section_offset \| OffsetArith\(Add\)', 'contract',
   CONTRACT + 'rustdoc: "Does not check that the offset is in bounds ... use UnitOffset::is_in_bounds first"; every in-crate caller with an attribute-derived '
   'offset calls is_in_bounds before (write::unit::convert add_attribute_refs / convert_unit_ref)')
rv('P', r'<u64 as read::reader::ReaderAddress>::ones_sized \|', 'contract',
   'assumption A-ENC: address_size passed through the public API is in {1,2,4,8}; an address size read from the input passes Reader::read_address_size which rejects everything else')
rv('P', r'^read::rnglists::RawRange::is_base_address \|', 'contract', 'assumption A-ENC (address_size is a public API parameter)')
rv('P', r'^read::op::Evaluation::<R, S>::new_in \|', 'contract', 'assumption A-ENC (Encoding is a public API parameter)')
rv('P', r'^read::aranges::ArangeEntry::parse \| Overflow\(Mul\) \| 2 Mul address_size', 'validator',
   'address_size comes from ArangeHeader::parse, which reads it with read_address_size (<= 8)',
   [{'fn': 'read::reader::Reader::read_address_size', 'cmp': ['size', 'const:8']}] if False else [])
rv('P', r"ConvertLineProgram::<'a, R>::read_row \| Overflow\((Mul|Sub|Shr)\)", 'validator',
   'the line program header\'s address_size is the unit\'s (A-ENC) or, for version 5, read with read_address_size')
rv('P', r'^read::line::LineRow::adjust_opcode \|', 'contract',
   CONTRACT + 'LineInstruction::Special(op) is only produced by LineInstruction::parse under `opcode >= header.opcode_base`; building it by hand with a smaller opcode is API misuse',
   [{'fn': 'read::line::LineInstruction::<R, Offset>::parse_with_offset' if False else 'read::line::LineInstruction::<R, Offset>::parse', 'cmp': ['opcode', 'opcode_base']}])
rv('P', r"FilterUnit::<'a, R>::require_entry \| panic\(debug_assert\)", 'contract', CONTRACT + 'the offset argument is the caller\'s; rustdoc requires an offset of this unit')

# ---- P: validators (D3) ---------------------------------------------------------------------
LR = [{'fn': 'read::line::LineProgramHeader::<R, Offset>::parse', 'cmp': ['line_range', 'const:0']}]
rv('P', r'^read::line::LineRow::exec_special_opcode \| (RemainderByZero|DivisionByZero)', 'validator',
   'LineProgramHeader::parse rejects line_range == 0 before storing the header', LR)
MO = [{'fn': 'read::line::LineProgramHeader::<R, Offset>::parse', 'cmp': ['maximum_operations_per_instruction', 'const:0']}]
rv('P', r'^read::line::LineRow::apply_operation_advance \| divcall\(Wrapping::(rem|div)\)', 'validator',
   'LineProgramHeader::parse rejects maximum_operations_per_instruction == 0 before storing the header (headers are only built by parse)', MO)
rv('P', r'^write::unit::(Unit|UnitTable)::get_mut \| index \| self\.(entries|units)\[id\.index\]', 'contract',
   CONTRACT + 'documented `# Panics` for an invalid id; UnitId/UnitEntryId have private fields and are produced only by this table\'s own add/reserve functions, the converters pass back ids they obtained from them')
rv('P', r"^write::unit::convert::ConvertUnitSection::<'a, R>::new_with_filter \| index \| offsets\[Range", 'invariant',
   INV + 'start is the previous end and end only grows while offsets.get(end) is Some, so start <= end <= offsets.len()')
rv('P', r'^read::line::LineRow::execute \| DivisionByZero', 'validator', 'LineProgramHeader::parse rejects line_range == 0 before storing the header', LR)
rv('P', r'^read::line::parse_(directory|file)_v5 \| unwrap \| path_name', 'validator',
   'FileEntryFormat::parse rejects formats whose DW_LNCT_path count is not exactly 1, so the loop always assigns path_name',
   [{'fn': 'read::line::FileEntryFormat::parse', 'cmp': ['path_count', 'const:1']}])
rv('P', r'^read::index::UnitIndex::<R>::parse \| BoundsCheck \| sections', 'validator',
   'i < section_count <= SECTION_COUNT_MAX (= array length): the count is rejected above that bound before the loop',
   [{'fn': 'read::index::UnitIndex::<R>::parse', 'cmp': ['section_count', 'SECTION_COUNT_MAX']}])
rv('P', r'^read::index::UnitIndex::<R>::sections \| index', 'validator',
   'self.section_count <= SECTION_COUNT_MAX = sections.len(), validated in UnitIndex::parse',
   [{'fn': 'read::index::UnitIndex::<R>::parse', 'cmp': ['section_count', 'SECTION_COUNT_MAX']}])
rv('P', r'^read::abbrev::Abbreviations::insert \| Overflow\(Sub\) \| code_usize Sub 1', 'validator',
   'abbreviation code 0 never reaches insert: Abbreviation::parse returns None for code 0 and Abbreviation::new asserts code != 0',
   [{'fn': 'read::abbrev::Abbreviation::parse', 'cmp': ['code', 'const:0']}])
rv('P', r'^read::abbrev::Abbreviation::new \| panic\(assert_ne\)', 'validator',
   'the only in-crate caller (Abbreviation::parse) returns before this for code 0',
   [{'fn': 'read::abbrev::Abbreviation::parse', 'cmp': ['code', 'const:0']}])
rv('P', r'^read::cfi::Augmentation::parse \| panic\(debug_assert\)', 'validator',
   'the caller (CommonInformationEntry::parse_rest) calls Augmentation::parse only for a non-empty augmentation string')
rv('P', r'^read::cfi::parse_encoded_(pointer|value) \| panic\(unreachable\)', 'validator',
   'rule X1 (run with this property): DwEhPe::is_valid_encoding accepts only formats/applications that have an arm here, and every caller validates first')
rv('P', r'^read::names::NameBucketIter::<R>::next \| RemainderByZero', 'validator',
   'bucket_count == 0 cannot reach this: NameBucketIter::new first reads bucket_index*4 bytes from the (then empty) bucket array and fails')
rv('P', r'^read::index::IndexSectionId::dwo_name \| unwrap', 'validator', 'rule W1 (C17): SectionId::dwo_name is Some for all ten IndexSectionId variants')
rv('P', r'^read::op::generic_type \| unwrap', 'invariant', 'ReaderOffset::from_u64(0) is Ok for every offset type')

def _value_guards(fnname):
    path = 'read::value::Value::' + fnname
    req = [{'fn': path, 'cmp': ['rhs@%s.0' % v, 'const:0']} for v in ('I8', 'U8', 'I16', 'U16', 'I32', 'U32', 'I64', 'U64')]
    req.append({'fn': path, 'cmp': ['rhs BitAnd addr_mask' if fnname == 'rem' else 'sign_extend(*v2, addr_mask)', 'const:0']})
    return req


for _f in ('div', 'rem'):
    rv('P', r'^read::value::Value::%s \| divcall' % _f, 'validator',
       'the first match of Value::%s returns Err(DivisionByZero) when the divisor payload is 0 (generic: masked to the address size), for every variant; '
       'the guard joins before the arithmetic match, which the dominating-edge analysis cannot follow' % _f, _value_guards(_f))
# ---- P: invariants ------------------------------------------------------------------------
rv('P', r'^<?read::util::ArrayVec', 'invariant', INV + 'ArrayVec keeps len <= capacity (stores to len only in try_push/try_insert after the capacity check, pop, clear) — audited by rule U2')
rv('P', r'read::util::<impl read::util::sealed::Sealed for alloc::vec::Vec<T>>::grow \| alloc', 'invariant',
   'grows the evaluation/unwind stack by the requested number of elements (1 per push); the stack depth is bounded by operations executed, not by a length field of the input')
rv('P', r'^read::endian_reader::SubRange::<T>::(skip|truncate) \| panic\(assert\)', 'invariant',
   INV + 'the asserts are the guard of the unsafe pointer arithmetic (rule U1); both callers (EndianReader::skip/truncate/split/read_slice) test len() < n first')
rv('P', r'EndianReader<Endian, T> as read::reader::Reader>::read_slice \| copy_from_slice', 'invariant',
   'copy_from_slice(&slice[..]) where the source was obtained with read_slice(buf.len()): equal lengths by construction')
rv('P', r"EndianSlice<'input, Endian> as read::reader::Reader>::read_slice \| copy_from_slice", 'invariant',
   'source obtained with self.read_slice(buf.len()): equal lengths by construction')
GUARD_ES = lambda fn: [{'fn': fn, 'cmp': ['len(', 'len']}]
rv('P', r"EndianSlice<'input, Endian> as read::reader::Reader>::skip \| index", 'validator',
   'dominated by `if self.slice.len() < len { return Err(UnexpectedEof) }`', GUARD_ES("<read::endian_slice::EndianSlice<'input, Endian> as read::reader::Reader>::skip"))
rv('P', r"EndianSlice<'input, Endian> as read::reader::Reader>::truncate \| index", 'validator',
   'dominated by `if self.slice.len() < len { return Err(UnexpectedEof) }`', GUARD_ES("<read::endian_slice::EndianSlice<'input, Endian> as read::reader::Reader>::truncate"))
rv('P', r"EndianSlice::<'input, Endian>::read_slice \| index", 'validator',
   'dominated by `if self.slice.len() < len { Err(UnexpectedEof) } else`', GUARD_ES("read::endian_slice::EndianSlice::<'input, Endian>::read_slice"))
rv('P', r'^<read::abbrev::Attributes as core::ops::Deref>::deref \| index', 'invariant', INV + 'Inline.len <= MAX_ATTRIBUTES_INLINE = buf.len(): push moves to the heap variant when len == MAX')
rv('P', r'^read::abbrev::Attributes::push \|', 'invariant', INV + 'this arm is reached only when len != MAX_ATTRIBUTES_INLINE (the preceding arm matches the full buffer), so len < buf.len()')
rv('P', r'^read::abbrev::AbbreviationsCache::populate::\{closure#1\} \| Overflow\(Add\)', 'invariant', 'counts equal neighbours in a Vec: bounded by its length')
rv('P', r'^read::abbrev::AttributeSpecification::new \| panic\(debug_assert\)', 'invariant',
   'AttributeSpecification::parse passes Some(value) exactly when form == DW_FORM_implicit_const (same test selects reading the SLEB)')
rv('P', r'(AddrHeaderIter|ArangeHeaderIter|DebugInfoUnitHeadersIter|DebugTypesUnitHeadersIter)::<R>::next \| OffsetArith', 'invariant',
   INV + 'len was input.len() before the parse and a reader only shrinks, so len - input.len() >= 0 and offset + consumed <= section length')
rv('P', r'(NameEntryIter::<\'a, R>|NameIndexHeaderIter::<R>)::next \| OffsetArith\(Sub\)', 'invariant', INV + 'end_offset was computed as offset + input.len() and the reader only shrinks')
rv('P', r"EntriesRaw::<'abbrev, R>::new \| OffsetArith\(Add\)", 'invariant', 'offset + input.len() is the end of the unit inside the section (both come from the same in-memory section, so the sum is <= its length)')
rv('P', r"EntriesRaw::<'abbrev, R>::next_offset \| OffsetArith\(Sub\)", 'invariant', INV + 'end_offset = offset + initial input.len(); input only shrinks (rule D2-offset, C02)')
rv('P', r"EntriesRaw::<'abbrev, R>::read_abbreviation \| Overflow\((Sub|Add)\) \| self.depth", 'invariant', 'depth changes by 1 per abbreviation code read (>= 1 byte each): |depth| <= input length < isize::MAX')
rv('P', r"EntriesRaw::<'abbrev, R>::read_attributes \| alloc", 'invariant', 'reserve(specs.len()): proportional to an abbreviation already parsed into memory')
rv('P', r"^read::names::NameEntry::<R>::parse \| alloc", 'invariant', 'with_capacity(specs.len()): proportional to an abbreviation already parsed into memory')
rv('P', r"^read::unit::EntriesTree::<'abbrev, R>::next \| panic\(debug_assert_eq\)", 'invariant', INV + 'next() is called with depth == self.depth by EntriesTreeIter (private API)')
rv('P', r"^read::unit::EntriesTreeNode::<'abbrev, 'tree, R>::new \| panic\(debug_assert\)", 'invariant', INV + 'nodes are created only after EntriesTree::next/root read a non-null entry')
rv('P', r"^read::unit::EntriesTreeIter::<'abbrev, 'tree, R>::next \| Overflow\(Add\)", 'invariant', 'tree depth is bounded by the number of entries read')
rv('P', r'^read::unit::UnitHeader::<R, Offset>::length_including_self \|', 'invariant', INV + 'unit_length was validated against the remaining section length in parse_unit_header (the unit body was split off with that length)')
rv('P', r'^read::unit::UnitHeader::<R, Offset>::header_size \|', 'invariant', INV + 'entries_buf is a suffix of the unit, so its length is <= length_including_self')
rv('P', r'^leb128::read::(unsigned|signed) \| Overflow\(Shl\) \| low_bits Shl shift', 'invariant', INV + 'shift is 0,7,..,63: the loop returns at shift == 63 before adding 7 again')
rv('P', r'^leb128::read::(unsigned|signed) \| Overflow\(Add\) \| shift Add 7', 'invariant', 'shift <= 63 + 7')
rv('P', r'^leb128::read::signed \| Overflow\(Shl\) \| Not\(0\) Shl shift', 'invariant', INV + 'guarded by `shift < size` (size = 64)')
rv('P', r'^leb128::read::u16 \| Overflow\(Add\)', 'invariant', INV + 'result < 2^14 and the third byte was checked to be <= 3, so the sum is < 2^16')
rv('P', r'^read::cfi::CallFrameInstruction::<T>::parse \| panic\(debug_assert_eq\)', 'invariant',
   'high_bits = byte & 0xC0 is one of {0,0x40,0x80,0xC0}; the three non-zero values returned earlier')
rv('P', r'^read::cfi::UnwindContext::<T, S>::', 'invariant', INV + 'the context stack is never empty: reset() pushes one row after clear(), pop_row refuses to pop the last row')
rv('P', r"^read::cfi::UnwindTable::<'a, 'ctx, R, S>::(new_for_cie|new_for_fde|next_row) \| panic\(assert\)", 'invariant', INV + 'same non-empty-stack invariant (UnwindContext::reset)')
rv('P', r'^read::index::UnitIndex::<R>::find \| Overflow\(Add\)', 'invariant', 'hash1, hash2 <= mask < 2^32 (slot_count is a u32), added in u64')
rv('P', r'^read::line::FileEntryFormat::parse \| Overflow\(Add\) \| path_count Add 1', 'invariant', 'at most format_count <= 255 increments')
rv('P', r'^<read::names::NameTableIter as core::iter::Iterator>::next \|', 'invariant', 'dominated by `name_table_index.0 >= name_count -> return`, so < u32::MAX')
rv('P', r'^read::names::NameBucketIter::<R>::next \| Overflow\(Add\)', 'invariant', 'dominated by `name_table_index.0 >= name_count -> return`, so < u32::MAX')
rv('P', r'^read::names::NameIndex::<R>::type_unit_count \|', 'invariant',
   'both counts are backed by list bytes checked in NameIndex::new (4 resp. 8 bytes per unit), so a sum above u32::MAX needs a section of more than 16 GiB; recorded as bounded, not demonstrable here')
rv('P', r'^read::op::Evaluation::<R, S>::evaluate_internal \| Overflow\(Add\) \| self.iteration Add 1', 'invariant', 'compared with max_iterations (u32) right after; 2^32 iterations of >= 1 byte each need the limit to be unset and a loop (C07)')
rv('P', r'^read::op::Evaluation::<R, S>::evaluate_internal \| Overflow\(Sub\)', 'invariant', INV + 'pc is a suffix of bytecode, and at least one byte was consumed by the decode that precedes this error path')
rv('P', r'^read::op::Evaluation::<R, S>::evaluate_one_operation \| (Overflow\(Sub\)|BoundsCheck)', 'validator',
   'dominated by `if index >= len { return Err(NotEnoughStackItems) }`', [{'fn': 'read::op::Evaluation::<R, S>::evaluate_one_operation', 'cmp': ['index', 'len']}])
rv('P', r'^case_fold::case_fold_data \| BoundsCheck', 'invariant', 'index returned by binary_search_by on the same array')
rv('P', r'^read::line::FileEntryFormat::parse \| alloc', 'invariant', 'format_count is a u8')

# ---- P: write-side code reached from the converters ---------------------------------------------
rv('P', r'^write::str::(StringTable|LineStringTable)::add \| panic', 'invariant', 'converted strings come from null-terminated reads (Reader::read_null_terminated_slice / to_slice of them) and cannot contain NUL')
rv('P', r'^write::str::(StringTable|LineStringTable)::add \| Overflow\(Add\)', 'invariant', 'total length of strings held in memory')
rv('P', r'^write::unit::(Unit::(add_reserved|get_mut)|UnitTable::get_mut|DebuggingInformationEntry::set) \| panic\(debug_assert', 'invariant',
   INV + 'ids carry the base id of the table that issued them; the converter only uses ids it obtained from the same Unit/UnitTable')
rv('P', r'^write::unit::Unit::reserve \| Overflow\(Add\)', 'invariant', 'number of reserved entries held in memory')
rv('P', r'^write::unit::DebuggingInformationEntry::reserve \| alloc', 'invariant', 'reserve(attrs.len()) of an entry already parsed into memory')
rv('P', r"^write::unit::convert::ConvertSplitUnitSection::<'a, R>::new(_with_filter)? \| panic\(debug_assert\)", 'contract', CONTRACT + 'the skeleton argument must itself not be a split unit (API precondition)')
rv('P', r"^write::unit::convert::ConvertUnitSection::<'a, R>::(new_with_filter|read_unit) \| Overflow\(Add\)", 'invariant', 'index into an in-memory Vec of units')
rv('P', r"^write::unit::convert::ConvertUnitSection::<'a, R>::new_with_filter \| panic\(debug_assert_eq\)", 'invariant', INV + 'entry ids are reserved in the order of the sorted offsets')
rv('P', r'^write::unit::convert::FilterDependencies::add_edge \| unwrap', 'invariant', INV + 'FilterUnit::read_entry calls add_entry(offset) before adding edges from that offset')
rv('P', r'^write::unit::convert::FilterDependencies::add_entry \| panic\(debug_assert\)', 'invariant', INV + 'each DIE offset is read once per unit')
rv('P', r"^write::unit::convert::FilterUnitSection::<'a, R>::read_unit \| unwrap", 'invariant', 'last() right after push()')
rv('P', r"ConvertLineProgram::<'a, R>::convert_file \| BoundsCheck", 'validator', 'dominated by `if from_dir >= dirs.len() { return Err(InvalidDirectoryIndex) }`',
   [{'fn': "write::line::convert::ConvertLineProgram::<'a, R>::convert_file", 'cmp': ['from_dir', 'len(']}])
rv('P', r'^write::cfi::FrameTable::add_fde \| panic\(debug_assert_eq\)', 'invariant', INV + 'the converter passes the CieId it got from add_cie of the same table')
rv('P', r'^read::cfi::EhHdrTableIter', 'invariant', 'n * row_size is a checked multiplication after the fix; nothing else is open here')

rv('P', r'^write::line::LineProgram::(add_file|add_directory) \| panic\(assert\) \| when contains', 'invariant', 'converted names come from null-terminated reads and cannot contain NUL')
rv('P', r'^write::line::LineProgram::begin_sequence \| panic\(assert\)', 'contract', CONTRACT + 'rustdoc "Panics if a sequence has already begun"; ConvertLineProgram::convert never calls it (it uses set_address), the wrapper ConvertLineProgram::begin_sequence hands the contract to its caller')
rv('P', r'^write::line::LineProgram::generate_row \| panic\(debug_assert\) \| when \(self.line_encoding.line_base Le 0\)', 'validator', 'LineProgram::new asserts line_base <= 0 (that assert being reachable from conversion is the known finding on LineProgram::new)')
rv('P', r'^write::line::LineProgram::generate_row \| (Overflow\(Add\)|panic\(debug_assert\)) \| .*line_base (Add|AddWithOverflow) ', 'validator', 'LineProgram::new asserts line_base + line_range > 0 evaluated the same way')
rv('P', r'^write::line::LineProgram::new \| panic\(assert\) \| when \(line_encoding.line_base Le 0\)', 'validator',
   'the converter returns Err(InvalidLineBase) for line_base > 0 before constructing the program (demo line_convert_asserts.rs: not reproducible)')
rv('P', r'^write::line::LineProgram::new \| panic\(assert\) \| when \(\(from\(', 'validator',
   'documented `# Panics` (line_base + line_range <= 0); the converter returns Err(InvalidLineBase) on the same test before constructing the program',
   [{'fn': "write::line::convert::ConvertLineProgram::<'a, R>::new", 'cmp': ['line_range(', 'const:0']}])
rv('P', r'^write::line::LineProgram::generate_row \| panic\(debug_assert\) \| when \(\(from\(', 'validator',
   'LineProgram::new asserts the stronger line_base + line_range > 0 on the same (non-wrapping) sum; line_encoding is not modified afterwards',
   [{'fn': 'write::line::LineProgram::new', 'cmp': ['AddWithOverflow', 'const:0']}])
rv('P', r'^write::line::LineProgram::add_directory \| panic\(assert\) \| when is_empty', 'invariant',
   'asserted only for version <= 4, where an empty include_directories entry terminates the list and therefore never reaches add_directory (demo: not reproducible)')
# ---- known findings ------------------------------------------------------------------------
kf('T2', r'^read::aranges::ArangeEntryIter::<R>::next\|\?convert_raw', ['C01'],
   'ArangeEntryIter::next is documented as fused but an AddressOverflow from convert_raw leaves the input untouched, so a later call yields the next tuple '
   '(input: tuple with begin+length overflowing the address size, followed by a valid tuple). The unit tests test_parse_entry_overflow_32/64 pin this behaviour, so it cannot be repaired without editing them',
   'findings/demo/tests/aranges_not_fused.rs')
kf('T3', r'^write::op::convert::<impl write::op::Expression>::from$', ['C01', 'C12'],
   'Expression::from recurses once per nested DW_OP_entry_value / DW_OP_GNU_entry_value, so the recursion depth is chosen by the input (2 bytes per level); '
   'a few ten thousand levels overflow the stack during conversion', 'findings/demo/tests/expr_from_recursion.rs')
# write::cfi::convert overflow / truncation findings: repaired in /repo d6ffc7a; no suppression
# LineProgram::new assert/overflow reached from conversion: repaired in /repo 6c95e08; no suppression
kf('P', r'^write::line::LineProgram::add_file \| panic\(assert\) \| when is_empty', ['C01', 'C12'],
   'converting a DWARF <= 4 line program with a DW_LNE_define_file whose name is empty hits assert!(!val.is_empty()) in write::LineProgram::add_file',
   'findings/demo/tests/line_convert_asserts.rs')
kf('P', r'^write::line::LineProgram::(generate_row|op_advance) \| (?!panic\(debug_assert\) \| when \(\(from\()', ['C01', 'C12'],
   'write::LineProgram::op_advance / generate_row do unchecked arithmetic on address offsets, operation indices, line deltas and the line encoding taken from the converted program '
   '(address_advance * maximum_operations_per_instruction, op_advance * line_range, ...); reached from ConvertLineProgram::convert with values chosen by the input, e.g. two '
   'DW_LNS_advance_pc of u64::MAX with maximum_operations_per_instruction 255', 'findings/demo/tests/line_convert_op_advance.rs')


# ---- N: narrowing / sign-changing casts -----------------------------------------------------
REINT = "intended two's-complement reinterpretation (no bits lost): "
rv('N', r'as core::convert::From<R>>::from \| cast usize->u8 \| size_of\(\) as u8', 'invariant', 'size_of::<usize>() is 4 or 8')
rv('N', r'as read::reader::ReaderOffset>::from_i16 \| cast i16->', 'reinterpret',
   'sign extension of a branch displacement: ReaderOffset::from_i16 is documented to wrap and its only users add it with wrapping_add and bounds-check the result (compute_pc)')
rv('N', r'^endianity::Endianity::read_i(16|32|64) \| cast u', 'reinterpret', REINT + 'signed fixed-width read = unsigned read of the same width, reinterpreted')
rv('N', r'^read::reader::Reader::read_i8 \| cast u8->i8', 'reinterpret', REINT + 'signed byte read')
rv('N', r'^leb128::read::(signed|unsigned) \| cast i32->u32 \| shift as u32', 'invariant', 'shift is one of 0,7,..,63 (never negative)')
rv('N', r"^read::cfi::UnwindTable::<'a, 'ctx, R, S>::evaluate \| cast u64->i64", 'reinterpret',
   REINT + 'ULEB offsets are stored in the i64 rule fields and multiplied with wrapping_mul, the modulo-2^64 behaviour the CFI evaluation documents')
rv('N', r'^read::cfi::parse_encoded_value::\{closure#\d\} \| cast i(16|32|64)->u64', 'reinterpret',
   REINT + 'source comment: signed encodings are sign-extended and returned as u64, then added to their base with wrapping addition')
rv('N', r'^read::op::Evaluation::<R, S>::(evaluate_one_operation|resume_with_frame_base|resume_with_register) \| cast i64->u64', 'reinterpret',
   REINT + 'signed offset added to a u64 base with wrapping_add (address arithmetic modulo the address size)')
rv('N', r'^read::reader::ReaderAddress::min_tombstone \| cast i64->u64', 'invariant', 'constant -2 as u64')
rv('N', r'^read::unit::AttributeValue::<R, Offset>::sdata_value \| cast u(8|16|32|64)->i', 'reinterpret',
   REINT + 'DW_FORM_dataN read as unsigned and interpreted as signed by the accessor the caller chose (DWARF leaves the signedness of dataN to the attribute)')
rv('N', r'^read::value::', 'reinterpret',
   'typed DWARF values: conversion to a base type of a given width truncates / reinterprets by definition (DW_OP_convert, DW_OP_reinterpret, Value::from_u64 rustdoc "The result is truncated"); '
   'generic values are masked to the address size before sign extension')
rv('N', r'^write::op::convert::<impl write::op::Expression>::from \| cast i64->usize', 'reinterpret',
   'branch displacement added with wrapping_add to the operation offset; the result must be found by binary_search among the decoded operation offsets or the conversion fails with InvalidBranchTarget')
rv('N', r'^leb128::write::Leb128::signed \| cast i64->u8 \| val as u8', 'reinterpret', 'low 7 bits of the value: masked with 0x7f in the same expression (LEB128 encoding step)')
rv('N', r'^leb128::write::Leb128::(signed|unsigned) \| cast usize->u8 \| len as u8', 'invariant', 'number of LEB128 bytes of a 64-bit value: at most 10')
rv('N', r'^write::writer::Writer::write_eh_pointer_data \| cast u64->i64', 'reinterpret', REINT + 'signed pointer encodings (sdata2/4/8, sleb128) of an address value; write_sdata range-checks the narrower widths')
rv('N', r'^write::writer::Writer::write_sdata \| cast i(8|16|32|64)->u(8|16|32|64)', 'reinterpret', REINT + 'the narrower signed value was produced by the cast-and-compare-back check two lines above')
rv('N', r'^write::cfi::CommonInformationEntry::write \| cast u16->u8 \| encoding.version as u8', 'validator', 'the CIE version byte: the match that selects the layout accepts only versions 1, 3 and 4 (anything else is Error::UnsupportedVersion)')
rv('N', r'^write::line::LineProgram::write \| cast i8->u8 \| self.line_encoding.line_base as u8', 'reinterpret', REINT + 'line_base is the signed byte of the header, written as its two\'s-complement bit pattern')
rv('N', r'^write::(loc::LocationListTable|range::RangeListTable)::write_(loc|ranges) \| cast u64->i64 \| length as i64', 'reinterpret', REINT + 'length added to a symbol addend (i64) with wrapping semantics; Address::Constant uses wrapping_add on u64')
rv('N', r'^write::op::Operation::write \| cast usize->i64', 'invariant', 'byte offsets inside one expression (bounded by the size of the Vec holding it, < 2^63); the i64 difference is range-checked by write_sdata(.., 2)')
rv('N', r'^write::relocate::<impl write::writer::Writer for T>::write_offset(_at)? \| cast usize->i64 \| val as i64', 'reinterpret', REINT + 'section offset stored as the addend of the recorded relocation')
kf('N', r'^write::line::LineProgram::generate_row \|', ['C12', 'C01'],
   'same defect family as the P findings on write::LineProgram::generate_row / new: line deltas and the line encoding are cast between signed and unsigned without validation when reached from conversion',
   'findings/demo/tests/line_convert_op_advance.rs')

# X-edges expr-ref|ImplicitPointer/VariableValue/EntryValue: repaired in /repo 97a1508 (see known_findings.json "fixed"); no suppression
# D8-guard RangeIter::next|Single: repaired in /repo f512876; no suppression
# F-offset-id debug_macinfo/debug_macro/debug_names: repaired in /repo 2ee02ca; no suppression


def main():
    obs = []
    for p in sys.argv[1:]:
        obs += json.load(open(p))
    reviewed = []
    findings = []
    unmatched = []
    seen = set()
    for o in obs:
        k = (o['rule'], o['key'])
        if k in seen:
            continue
        seen.add(k)
        hit = False
        for (rule, pat, props, what, demo) in K:
            if rule == o['rule'] and pat.search(o['key']):
                e = {'rule': rule, 'key': o['key'], 'properties': props, 'what': what, 'demo': demo, 'loc_when_recorded': o['loc']}
                if o.get('nf'):
                    e['nf'] = o['nf']
                findings.append(e)
                hit = True
                break
        if hit:
            continue
        for (rule, pat, cls, reason, req) in R:
            if rule == o['rule'] and pat.search(o['key']):
                e = {'rule': rule, 'key': o['key'], 'class': cls, 'reason': reason}
                if o.get('nf'):
                    e['nf'] = o['nf']
                if req:
                    e['requires'] = req
                reviewed.append(e)
                hit = True
                break
        if not hit:
            unmatched.append(o)
    # merge with existing tables for rules not present in these dumps
    rules_here = {o['rule'] for o in obs}
    rp = os.path.join(V, 'tables', 'reviewed_sites.json')
    if os.path.exists(rp):
        old = json.load(open(rp))['sites']
        reviewed += [e for e in old if e['rule'] not in rules_here]
    kp = os.path.join(V, 'known_findings.json')
    kfile = {'findings': [], 'fixed': []}
    if os.path.exists(kp):
        kfile = json.load(open(kp))
        findings += [e for e in kfile.get('findings', []) if e['rule'] not in rules_here]
    reviewed.sort(key=lambda e: (e['rule'], e['key']))
    findings.sort(key=lambda e: (e['rule'], e['key']))
    json.dump({'comment': 'exact-key reviewed sites; generated by tools/triage.py from the reviewer\'s rules, then frozen',
               'sites': reviewed}, open(rp, 'w'), indent=1)
    kfile['findings'] = findings
    json.dump(kfile, open(kp, 'w'), indent=1)
    print('reviewed %d, findings %d, unmatched %d' % (len(reviewed), len(findings), len(unmatched)))
    for o in unmatched:
        print('  UNMATCHED', o['rule'], '|', o['loc'], '|', o['key'][:200])


if __name__ == '__main__':
    main()
