#!/usr/bin/env python3
"""Maintainer tool: (re)generate tables/spec/<id>.json from a facts directory.
    tools/gen_spec.py /tmp/gfacts [id ...]      (existing tables are only overwritten with --force)"""
import json, os, sys
sys.path.insert(0, os.path.dirname(os.path.dirname(os.path.abspath(__file__))))
from rules.facts import Facts, MissingAnchor
from rules import spec as SP
from rules.specs_registry import SPECS
args = [a for a in sys.argv[1:] if not a.startswith('--')]
force = '--force' in sys.argv
g = Facts(os.path.join(args[0], 'gimli.facts.json'))
ids = set(args[1:])
os.makedirs(os.path.join(SP.V, 'tables', 'spec'), exist_ok=True)
for s in SPECS:
    if ids and s['id'] not in ids:
        continue
    p = SP.table_path(s['id'])
    if os.path.exists(p) and not force:
        print('keep', s['id'])
        continue
    try:
        rows = SP.extract(g, s)
    except MissingAnchor as e:
        print('ANCHOR', s['id'], e)
        continue
    json.dump({'id': s['id'], 'fn': s.get('fn') or s['fns'], 'kind': s['kind'], 'reviewed': 'generated from the pinned tree; how each kind of table was reviewed is stated in DESIGN.md §2 (Spec tables) and §9',
               'floor': len(rows), 'rows': rows}, open(p, 'w'), indent=1, sort_keys=True)
    print('wrote', s['id'], len(rows))
