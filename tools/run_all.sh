#!/bin/bash
# usage: tools/run_all.sh [quick|thorough] [JOBS]  -- runs every check against /repo, JOBS at a time; prints one summary line per property
cd "$(dirname "$0")/.."
tier="${1:-quick}"; jobs="${2:-4}"
mkdir -p /tmp/run_all
seq -w 1 20 | xargs -P "$jobs" -I{} bash -c "./check C{} --tier $tier > /tmp/run_all/C{}.log 2>&1; echo \"C{} rc=\$? \$(grep -v '^KNOWN\\|^VIOLATION\\|WARNING conda' /tmp/run_all/C{}.log | tail -1)\""
