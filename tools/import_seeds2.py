#!/usr/bin/env python3
"""Maintainer tool: tools/import_seeds2.py <confirm log>...  -- copies confirmed round-2 seeds from /tmp/seed2-Cxx/<n>/ to seeded/Cxx-<n+2>/"""
import json, os, re, shutil, sys
V = os.path.dirname(os.path.dirname(os.path.abspath(__file__)))
titles = {}
for l in open(os.path.join(V, 'properties.jsonl')):
    d = json.loads(l)
    titles[d['id']] = d.get('title') or d.get('name') or ''
for log in sys.argv[1:]:
    for line in open(log):
        line = line.strip()
        if not line.startswith('{'):
            continue
        c = json.loads(line)
        m = re.match(r'/tmp/seed([234])-(C\d+)/(\d)$', c['seed'])
        if not m:
            continue
        rnd, prop, n = int(m.group(1)), m.group(2), int(m.group(3))
        ok = c.get('build_rc') == 0 and c.get('suite_rc') == 0 and c.get('suite_failed_tests') == 0 and c.get('demo_with_patch_rc') not in (0, None) and c.get('demo_clean_rc') == 0
        name = '%s-%d' % (prop, n + 2 * (rnd - 1))
        if not ok:
            print('NOT CONFIRMED', name, c)
            continue
        dst = os.path.join(V, 'seeded', name)
        os.makedirs(dst, exist_ok=True)
        for f in ('patch.diff', 'demo.rs', 'README.md'):
            shutil.copy(os.path.join(c['seed'], f), os.path.join(dst, f))
        readme = open(os.path.join(dst, 'README.md')).read()
        needs = ''
        mm = re.search(r'(?is)(#+[^\n]*(needs|manifest)[^\n]*\n.*?)(\n#+ |\Z)', readme)
        if mm:
            needs = mm.group(1)[:1500]
        meta = {'name': name, 'property': prop, 'property_title': titles.get(prop, ''), 'round': rnd,
                'origin': 'written by a fresh sub-agent that was given only the text of the property and a scratch git worktree of /repo (later rounds: told which places the earlier rounds had used, nothing else)',
                'needs_to_manifest': needs,
                'confirmed': {'script': 'tools/confirm_seed.sh (scratch worktree of /repo at 11b0868)', 'patched_tree_builds': True,
                              'existing_suite_passes_with_patch': True, 'demo_fails_with_patch': True, 'demo_passes_on_clean_tree': True, 'raw': {k: v for k, v in c.items() if k != 'seed'}},
                'apply': 'git -C /repo apply /verif/seeded/%s/patch.diff   (undo: git -C /repo checkout -- .)' % name,
                'caught_by': [], 'cannot_decide_in': [], 'first_reports': []}
        json.dump(meta, open(os.path.join(dst, 'meta.json'), 'w'), indent=1)
        print('imported', name)
