#!/bin/bash
# usage: [SEED_REPO=<clean checkout>] [JOBS=4] tools/run_matrix.sh <base dir> <name> ...
#   patches at <base>/<name>/patch.diff (kept seeds: base=seeded) or <base>/seed-<name>/patch.diff
# Runs tools/try_all.sh for each seed, JOBS at a time, each worker on its own copy of the checkout.
cd "$(dirname "$0")/.."
base="$1"; shift
REPO="${SEED_REPO:-/repo}"
JOBS="${JOBS:-4}"
work=$(mktemp -d /tmp/matrix.XXXX)
names=("$@")
run_one() {
  w="$1"; d="$2"
  if [ -f "$base/$d/patch.diff" ]; then pf="$base/$d/patch.diff"; else pf="$base/seed-$d/patch.diff"; fi
  pf=$(readlink -f "$pf")
  { echo "#### $d"; SEED_REPO="$work/repo$w" SEED_LINES=2 tools/try_all.sh "$pf" 2>&1 | grep -v "^WARN"; } > "$work/out.$d.txt" 2>&1
}
for w in $(seq 1 $JOBS); do
  mkdir -p "$work/repo$w"
  (cd "$REPO" && git archive HEAD) | tar -x -C "$work/repo$w"
  (cd "$work/repo$w" && git init -q && git add -A >/dev/null 2>&1 && git -c user.email=x@x -c user.name=x commit -qm base >/dev/null 2>&1)
done
i=0
for d in "${names[@]}"; do
  w=$(( i % JOBS + 1 ))
  i=$(( i + 1 ))
  # each worker processes its seeds sequentially: chain by waiting on the previous job of the same worker
  eval "prev=\${pid$w:-}"
  ( [ -n "$prev" ] && while kill -0 $prev 2>/dev/null; do sleep 2; done; run_one $w "$d" ) &
  eval "pid$w=$!"
done
wait
for d in "${names[@]}"; do cat "$work/out.${d//\//\/}.txt" 2>/dev/null || cat "$work/out.$d.txt"; done
rm -rf "$work"
echo MATRIX-DONE
