#!/bin/bash
# usage: [SEED_REPO=...] tools/run_matrix.sh <seed dir> <id/n> ...   e.g. tools/run_matrix.sh /tmp C01/1 C01/2  (patches at <dir>/seed-<id>/<n>/patch.diff)
#        or with kept seeds: tools/run_matrix.sh seeded C01-1 ...   (patches at seeded/<name>/patch.diff)
cd "$(dirname "$0")/.."
base="$1"; shift
for d in "$@"; do
  echo "#### $d"
  if [ -f "$base/$d/patch.diff" ]; then pf="$base/$d/patch.diff"; else pf="$base/seed-$d/patch.diff"; fi
  SEED_LINES=2 tools/try_all.sh "$pf" 2>&1 | grep -v "^WARN"
done
echo MATRIX-DONE
