//! Compile-fail witnesses (type-level clauses of C10 and C20). Each `compile_fail,E....` block must
//! fail to compile with exactly that error code; its twin differs only in the offending line and must
//! compile (`no_run`: nothing of gimli is executed). Run with `cargo +nightly test --doc --offline`
//! (the error codes are honoured on nightly only).

/// W-C10-a: the `Rc`-backed reader is not `Send` (so it cannot be shared across threads unsafely).
/// ```compile_fail,E0277
/// fn assert_send<T: Send>() {}
/// assert_send::<gimli::EndianRcSlice<gimli::LittleEndian>>();
/// ```
/// Twin: the `Arc`-backed reader is `Send`.
/// ```no_run
/// fn assert_send<T: Send>() {}
/// assert_send::<gimli::EndianArcSlice<gimli::LittleEndian>>();
/// ```
pub struct RcReaderIsNotSend;

/// W-C10-b: a sub-reader split from a borrowed reader cannot outlive the buffer.
/// ```compile_fail,E0597
/// use gimli::Reader;
/// let sub;
/// {
///     let buf = vec![1u8, 2, 3, 4];
///     let mut r = gimli::EndianSlice::new(&buf, gimli::LittleEndian);
///     sub = r.split(2).unwrap();
/// }
/// let _ = sub.len();
/// ```
/// Twin: using the sub-reader while the buffer is alive compiles.
/// ```no_run
/// use gimli::Reader;
/// let buf = vec![1u8, 2, 3, 4];
/// let sub;
/// {
///     let mut r = gimli::EndianSlice::new(&buf, gimli::LittleEndian);
///     sub = r.split(2).unwrap();
/// }
/// let _ = sub.len();
/// ```
pub struct SubReaderCannotOutliveBuffer;

/// W-C10-c: the pointer/length window of the shared-buffer reader cannot be touched from outside.
/// ```compile_fail,E0616
/// let r = gimli::EndianRcSlice::new(std::rc::Rc::from(&[1u8, 2][..]), gimli::LittleEndian);
/// let _ = r.range;
/// ```
/// Twin: the public accessor compiles.
/// ```no_run
/// let r = gimli::EndianRcSlice::new(std::rc::Rc::from(&[1u8, 2][..]), gimli::LittleEndian);
/// let _ = r.bytes();
/// ```
pub struct RangeFieldIsPrivate;

/// W-C20-a: two unwind tables cannot borrow one `UnwindContext` at the same time.
/// ```compile_fail,E0499
/// use gimli::{BaseAddresses, EhFrame, EndianSlice, LittleEndian, UnwindContext, UnwindSection, UnwindTable};
/// fn two_tables(eh: &EhFrame<EndianSlice<LittleEndian>>, bases: &BaseAddresses,
///               fde: &gimli::FrameDescriptionEntry<EndianSlice<LittleEndian>>) {
///     let mut ctx = UnwindContext::new();
///     let t1 = UnwindTable::new(eh, bases, &mut ctx, fde).unwrap();
///     let t2 = UnwindTable::new(eh, bases, &mut ctx, fde).unwrap();
///     drop(t1);
///     drop(t2);
/// }
/// ```
/// Twin: sequential reuse of the context compiles.
/// ```no_run
/// use gimli::{BaseAddresses, EhFrame, EndianSlice, LittleEndian, UnwindContext, UnwindSection, UnwindTable};
/// fn two_tables(eh: &EhFrame<EndianSlice<LittleEndian>>, bases: &BaseAddresses,
///               fde: &gimli::FrameDescriptionEntry<EndianSlice<LittleEndian>>) {
///     let mut ctx = UnwindContext::new();
///     let t1 = UnwindTable::new(eh, bases, &mut ctx, fde).unwrap();
///     drop(t1);
///     let t2 = UnwindTable::new(eh, bases, &mut ctx, fde).unwrap();
///     drop(t2);
/// }
/// ```
pub struct OneTablePerContext;

/// W-C20-b: two live nodes of one entries tree cannot coexist (the tree is a streaming cursor).
/// ```compile_fail,E0499
/// fn two_nodes<R: gimli::Reader>(tree: &mut gimli::EntriesTree<R>) {
///     let a = tree.root().unwrap();
///     let b = tree.root().unwrap();
///     let _ = a.entry();
///     let _ = b.entry();
/// }
/// ```
/// Twin: re-rooting after the first node is dropped compiles.
/// ```no_run
/// fn two_nodes<R: gimli::Reader>(tree: &mut gimli::EntriesTree<R>) {
///     {
///         let a = tree.root().unwrap();
///         let _ = a.entry();
///     }
///     let b = tree.root().unwrap();
///     let _ = b.entry();
/// }
/// ```
pub struct OneNodePerTree;

/// W-C10-d: a reader cannot be fabricated by generic parsing code: `Reader` has no constructor.
/// ```compile_fail,E0599
/// fn fabricate<R: gimli::Reader>() -> R {
///     R::new(&[], gimli::LittleEndian)
/// }
/// ```
/// Twin: the only way to obtain an `R` is from another `R`.
/// ```no_run
/// fn derive<R: gimli::Reader>(r: &R) -> R {
///     r.clone()
/// }
/// ```
pub struct ReaderHasNoConstructor;
